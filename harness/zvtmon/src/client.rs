//! Driving the real `Feig` client against the simulated terminal under tokio's
//! paused clock; shared scenario runner of C07–C10 and C18–C20.

use crate::sim::*;
use crate::sut::panic_signature;
use crate::Ctx;
use futures::FutureExt;
use refcodec::layout::Schema;
use serde_json::json;
use std::net::Ipv4Addr;
use std::sync::{Arc, Mutex};
use std::time::Duration;
use zvt_feig_terminal::config::{Config, FeigConfig};
use zvt_feig_terminal::feig::{CardInfo, Error as FeigError, Feig};
use zvt_feig_terminal::verif_hook::{install, uninstall};

#[derive(Clone, Debug, PartialEq)]
pub struct ClientCfg {
    pub terminal_id: String,
    pub serial: String,
    pub password: usize,
    pub currency: usize,
    pub pre_amount: usize,
    pub read_card_timeout: u8,
    pub max_tx: usize,
}

impl Default for ClientCfg {
    fn default() -> Self {
        ClientCfg { terminal_id: "52523535".into(), serial: "17FD1E3C".into(), password: 123456, currency: 978, pre_amount: 2500, read_card_timeout: 15, max_tx: 1 }
    }
}

#[derive(Clone, Debug, PartialEq)]
pub enum Call {
    Configure,
    ReadCard,
    Begin(String),
    Commit(String, u64),
    Cancel(String),
}

impl Call {
    pub fn name(&self) -> &'static str {
        match self {
            Call::Configure => "configure",
            Call::ReadCard => "read_card",
            Call::Begin(_) => "begin",
            Call::Commit(..) => "commit",
            Call::Cancel(_) => "cancel",
        }
    }
}

#[derive(Clone, Debug, PartialEq)]
pub enum OkVal {
    Unit,
    Bank,
    Membership(String),
    Summary { terminal_id: Option<String>, amount: Option<u64>, trace_number: Option<u64>, date: Option<String>, time: Option<String> },
}

#[derive(Clone, Debug, PartialEq)]
pub enum ErrClass {
    ActiveTransaction,
    UnknownToken,
    NoCardPresented,
    NeedsPinEntry,
    UnexpectedPacket,
    Aborted(u8),
    /// another ZVTError (Debug)
    Zvt(String),
    Other,
}

#[derive(Clone, Debug, PartialEq)]
pub enum CallResult {
    Ok(OkVal),
    Err { class: ErrClass, text: String },
    Panic(String),
    /// not returned after one virtual day
    Hang,
}

impl CallResult {
    pub fn is_ok(&self) -> bool {
        matches!(self, CallResult::Ok(_))
    }
    pub fn short(&self) -> String {
        match self {
            CallResult::Ok(v) => format!("Ok({v:?})"),
            CallResult::Err { class, text } => format!("Err({class:?}: {})", text.chars().take(100).collect::<String>()),
            CallResult::Panic(p) => format!("Panic({p})"),
            CallResult::Hang => "Hang(>1 virtual day)".into(),
        }
    }
}

pub fn classify_err(e: &anyhow::Error) -> CallResult {
    let text = format!("{e:#}");
    let class = if let Some(fe) = e.downcast_ref::<FeigError>() {
        match fe {
            FeigError::ActiveTransaction(_) => ErrClass::ActiveTransaction,
            FeigError::UnknownToken(_) => ErrClass::UnknownToken,
            FeigError::NoCardPresented => ErrClass::NoCardPresented,
            FeigError::NeedsPinEntry => ErrClass::NeedsPinEntry,
            FeigError::UnexpectedPacket => ErrClass::UnexpectedPacket,
            #[allow(unreachable_patterns)]
            _ => ErrClass::Other,
        }
    } else if let Some(ze) = e.downcast_ref::<zvt::ZVTError>() {
        match ze {
            zvt::ZVTError::Aborted(c) => ErrClass::Aborted(*c),
            other => ErrClass::Zvt(format!("{other:?}")),
        }
    } else {
        ErrClass::Other
    };
    CallResult::Err { class, text }
}

#[derive(Clone, Debug)]
pub struct Scenario {
    pub cfg: ClientCfg,
    pub sim_serial: String,
    pub sim_terminal_id: String,
    pub plan: Plan,
    pub dangling: Option<u64>,
    /// first receipt number the terminal issues (default 231)
    pub first_receipt: u64,
    pub calls: Vec<Call>,
}

impl Default for Scenario {
    fn default() -> Self {
        let cfg = ClientCfg::default();
        Scenario { sim_serial: cfg.serial.clone(), sim_terminal_id: cfg.terminal_id.clone(), cfg, plan: Plan::default(), dangling: None, first_receipt: 231, calls: vec![] }
    }
}

#[derive(Clone, Debug)]
pub struct CallTrace {
    /// 1 = Feig::new, 2.. = the calls of the scenario
    pub index: usize,
    pub call: Option<Call>,
    pub result: CallResult,
    pub virtual_ms: u64,
    pub open_after: Option<Vec<(String, usize)>>,
}

pub struct Trace {
    pub calls: Vec<CallTrace>,
    pub log: Vec<ConnEv>,
    pub requests: Vec<Request>,
    pub ledger: Vec<PreAuth>,
    pub tx_points: Vec<TxPoint>,
    pub last_status: Option<StatusFields>,
}

const WATCHDOG: Duration = Duration::from_secs(86_400);

enum Guarded<T> {
    Done(T),
    Panic(String),
    Hang,
}

async fn guard<T>(fut: impl std::future::Future<Output = T>) -> Guarded<T> {
    crate::sut::clear_last_panic();
    match tokio::time::timeout(WATCHDOG, std::panic::AssertUnwindSafe(fut).catch_unwind()).await {
        Err(_) => Guarded::Hang,
        Ok(Err(_)) => Guarded::Panic(crate::sut::take_last_panic().unwrap_or_else(|| "?: panic".into())),
        Ok(Ok(v)) => Guarded::Done(v),
    }
}

pub fn run_scenario(sc: &Scenario, schema: &Arc<Schema>) -> Trace {
    let rt = tokio::runtime::Builder::new_current_thread().enable_time().start_paused(true).build().expect("runtime");
    let ip: Ipv4Addr = fresh_ip();
    let shared: SharedRef = rt.block_on(async {
        let mut sh = Shared::new(schema.clone(), &sc.sim_serial, &sc.sim_terminal_id, sc.plan.clone());
        sh.dangling = sc.dangling;
        sh.next_receipt = sc.first_receipt;
        Arc::new(Mutex::new(sh))
    });
    install(ip, Arc::new(SimConnector { shared: shared.clone() }));
    let calls = rt.block_on(async {
        let mut out: Vec<CallTrace> = vec![];
        let config = Config {
            terminal_id: sc.cfg.terminal_id.clone(),
            feig_serial: sc.cfg.serial.clone(),
            ip_address: ip,
            feig_config: FeigConfig { currency: sc.cfg.currency, pre_authorization_amount: sc.cfg.pre_amount, read_card_timeout: sc.cfg.read_card_timeout, password: sc.cfg.password },
            transactions_max_num: sc.cfg.max_tx,
        };
        shared.lock().unwrap().begin_call();
        let t0 = tokio::time::Instant::now();
        let made = guard(Feig::new(config)).await;
        let ms = t0.elapsed().as_millis() as u64;
        let mut feig = match made {
            Guarded::Done(Ok(f)) => {
                out.push(CallTrace { index: 1, call: None, result: CallResult::Ok(OkVal::Unit), virtual_ms: ms, open_after: Some(f.verif_open_transactions()) });
                f
            }
            Guarded::Done(Err(e)) => {
                out.push(CallTrace { index: 1, call: None, result: classify_err(&e), virtual_ms: ms, open_after: None });
                return out;
            }
            Guarded::Panic(p) => {
                out.push(CallTrace { index: 1, call: None, result: CallResult::Panic(p), virtual_ms: ms, open_after: None });
                return out;
            }
            Guarded::Hang => {
                out.push(CallTrace { index: 1, call: None, result: CallResult::Hang, virtual_ms: ms, open_after: None });
                return out;
            }
        };
        for (i, call) in sc.calls.iter().enumerate() {
            let idle_close = shared.lock().unwrap().begin_call();
            if idle_close {
                // let the serving tasks close their connections before the client writes
                for _ in 0..4 {
                    tokio::task::yield_now().await;
                }
            }
            let t0 = tokio::time::Instant::now();
            let res: Guarded<CallResult> = guard(async {
                match call {
                    Call::Configure => match feig.configure().await {
                        Ok(()) => CallResult::Ok(OkVal::Unit),
                        Err(e) => classify_err(&e),
                    },
                    Call::ReadCard => match feig.read_card().await {
                        Ok(CardInfo::Bank) => CallResult::Ok(OkVal::Bank),
                        Ok(CardInfo::MembershipCard(s)) => CallResult::Ok(OkVal::Membership(s)),
                        #[allow(unreachable_patterns)]
                        Ok(_) => CallResult::Ok(OkVal::Unit),
                        Err(e) => classify_err(&e),
                    },
                    Call::Begin(t) => match feig.begin_transaction(t).await {
                        Ok(()) => CallResult::Ok(OkVal::Unit),
                        Err(e) => classify_err(&e),
                    },
                    Call::Commit(t, amount) => match feig.commit_transaction(t, *amount).await {
                        Ok(s) => CallResult::Ok(OkVal::Summary { terminal_id: s.terminal_id, amount: s.amount, trace_number: s.trace_number, date: s.date, time: s.time }),
                        Err(e) => classify_err(&e),
                    },
                    Call::Cancel(t) => match feig.cancel_transaction(t).await {
                        Ok(()) => CallResult::Ok(OkVal::Unit),
                        Err(e) => classify_err(&e),
                    },
                }
            })
            .await;
            let ms = t0.elapsed().as_millis() as u64;
            let (result, stop) = match res {
                Guarded::Done(r) => (r, false),
                Guarded::Panic(p) => (CallResult::Panic(p), true),
                Guarded::Hang => (CallResult::Hang, true),
            };
            let open_after = if stop { None } else { Some(feig.verif_open_transactions()) };
            out.push(CallTrace { index: i + 2, call: Some(call.clone()), result, virtual_ms: ms, open_after });
            if stop {
                break;
            }
        }
        drop(feig);
        for _ in 0..8 {
            tokio::task::yield_now().await;
        }
        out
    });
    uninstall(ip);
    drop(rt);
    let sh = shared.lock().unwrap();
    Trace { calls, log: sh.log.clone(), requests: sh.requests.clone(), ledger: sh.ledger.clone(), tx_points: sh.tx_points.clone(), last_status: sh.last_status.clone() }
}

// ---------------------------------------------------------------- rendering for replay files / samples

pub fn scenario_json(sc: &Scenario) -> serde_json::Value {
    json!({
        "config": {"terminal_id": sc.cfg.terminal_id, "serial": sc.cfg.serial, "password": sc.cfg.password, "currency": sc.cfg.currency, "pre_authorization_amount": sc.cfg.pre_amount, "read_card_timeout": sc.cfg.read_card_timeout, "transactions_max_num": sc.cfg.max_tx.to_string()},
        "terminal": {"serial": sc.sim_serial, "terminal_id": sc.sim_terminal_id, "dangling_receipt": sc.dangling, "first_receipt": sc.first_receipt},
        "plan": {
            "exchanges": sc.plan.ex.iter().map(|(k, q)| (format!("call {} {:?}", k.0, k.1), q.iter().map(|x| format!("{x:?}")).collect::<Vec<_>>())).collect::<std::collections::BTreeMap<_, _>>(),
            "faults": sc.plan.faults.iter().map(|f| format!("{f:?}")).collect::<Vec<_>>(),
            "delay_ms": sc.plan.delay_ms, "split_delay_ms": sc.plan.split_delay_ms, "flip_serial_case": sc.plan.flip_serial_case, "dangling_from_call": sc.plan.dangling_from_call.map(|x| format!("{x:?}")),
        },
        "history": sc.calls.iter().map(|c| format!("{c:?}")).collect::<Vec<_>>(),
    })
}

pub fn trace_json(tr: &Trace, max_log: usize) -> serde_json::Value {
    json!({
        "results": tr.calls.iter().map(|c| json!({"call": c.index, "op": c.call.as_ref().map(|x| format!("{x:?}")).unwrap_or_else(|| "Feig::new".into()), "result": c.result.short(), "virtual_ms": c.virtual_ms, "open_after": c.open_after})).collect::<Vec<_>>(),
        "requests": tr.requests.iter().map(|r| json!({"call": r.call, "conn": r.conn, "cmd": format!("{:?}", r.cmd), "bytes": refcodec::hex(&r.bytes[..r.bytes.len().min(60)])})).collect::<Vec<_>>(),
        "connection_log": tr.log.iter().take(max_log).map(|e| json!({"t_ms": e.t_ms, "call": e.call, "conn": e.conn, "ev": format!("{:?}", e.dir), "bytes": refcodec::hex(&e.bytes[..e.bytes.len().min(40)])})).collect::<Vec<_>>(),
        "ledger": tr.ledger.iter().map(|p| format!("{p:?}")).collect::<Vec<_>>(),
    })
}

pub fn case_json(sc: &Scenario, tr: &Trace) -> serde_json::Value {
    json!({"kind": "client", "scenario": scenario_json(sc), "trace": trace_json(tr, 160)})
}

pub fn panic_sig(p: &str) -> String {
    panic_signature(p)
}

pub fn run(ctx: &Ctx, id: &str) -> i32 {
    match id {
        "C07" | "C19" => crate::history::run(ctx, id),
        "C08" => crate::c08::run(ctx),
        "C09" | "C10" => crate::faults::run(ctx, id),
        "C18" => crate::c18::run(ctx),
        "C20" => crate::c20::run(ctx),
        _ => 2,
    }
}
