pub fn run(_ctx: &crate::Ctx, _id: &str) -> i32 { 2 }
