//! C12 — the derive macro implements the declared layout for any user-defined struct.
//!
//! `gen_schema` draws well-formed struct definitions from the attribute grammar
//! of the macro; they are emitted twice: as Rust source with `#[derive(Zvt)]`
//! (compiled against /repo) and as a layout table for the reference codec.  The
//! generated crate links the same engine as C01/C03/C13/C14 and reports back.

use crate::Ctx;
use refcodec::evidence::Report;
use refcodec::layout::*;
use refcodec::prng::Rng;
use serde_json::json;
use std::collections::BTreeSet;
use std::path::{Path, PathBuf};

struct Meta {
    depth: usize,
    /// only positional mandatory fields of fixed size: may be nested without a length prefix
    fixed_positional_only: bool,
    referenced: bool,
}

fn pick_tag(rng: &mut Rng, used: &mut BTreeSet<u16>) -> u16 {
    loop {
        let t: u16 = match rng.below(5) {
            0 => 0x1f00 | rng.below(256) as u16,
            1 => 0xff00 | rng.below(256) as u16,
            _ => rng.range(1, 0xfe) as u16,
        };
        if t == 0x1f || t == 0xff || t == 0x1f0e || t == 0x1f0f {
            continue;
        }
        if used.insert(t) {
            return t;
        }
    }
}

fn int_ty(rng: &mut Rng) -> IntTy {
    *rng.pick(&[IntTy::U8, IntTy::U16, IntTy::U32, IntTy::U64, IntTy::Usize])
}

/// Draw (encoding, length style) for one field.  `greedy_ok`: an unprefixed rest-of-scope field is allowed here.
fn pick_enc_len(rng: &mut Rng, nested: &[(String, usize, bool)], max_depth: usize, greedy_ok: bool, element: bool) -> (Enc, Len, usize) {
    let prefixed = |rng: &mut Rng| -> Len { rng.pick(&[Len::Ber, Len::Ber, Len::Ll, Len::Lll]).clone() };
    loop {
        match rng.below(20) {
            0..=7 => {
                let mut ty = int_ty(rng);
                if element && ty == IntTy::U8 {
                    ty = IntTy::U16; // Vec<u8> is the raw-bytes payload type of the feig packets, not a list of numbers
                }
                match rng.below(3) {
                    0 | 1 => {
                        let be = rng.chance(1, 2);
                        let len = match rng.below(5) {
                            0 => Len::Fixed(ty.bytes()),
                            1 => prefixed(rng),
                            _ => Len::None,
                        };
                        return (Enc::Int { ty, be }, len, 0);
                    }
                    _ => {
                        let len = match rng.below(6) {
                            0 if greedy_ok => Len::None,
                            1 | 2 => prefixed(rng),
                            _ => Len::Fixed(1 + rng.below(10) as usize),
                        };
                        if len == Len::None && !greedy_ok {
                            continue;
                        }
                        return (Enc::Bcd(ty), len, 0);
                    }
                }
            }
            8..=12 => {
                let enc = rng.pick(&[Enc::Cp437, Enc::Cp437, Enc::Hex, Enc::Utf8]).clone();
                let len = match rng.below(6) {
                    0 if greedy_ok => Len::None,
                    1 => Len::Fixed(1 + rng.below(20) as usize),
                    _ => prefixed(rng),
                };
                if len == Len::None && !greedy_ok {
                    continue;
                }
                return (enc, len, 0);
            }
            13 => return (Enc::DateTime, prefixed(rng), 0),
            _ => {
                let cands: Vec<&(String, usize, bool)> = nested.iter().filter(|n| n.1 + 1 <= max_depth).collect();
                if cands.is_empty() {
                    continue;
                }
                let (key, depth, fixed) = (*rng.pick(&cands)).clone();
                let len = if fixed && !element && rng.chance(1, 2) { Len::None } else { prefixed(rng) };
                return (Enc::Struct(key), len, depth + 1);
            }
        }
    }
}

fn fixed_size(enc: &Enc, len: &Len) -> bool {
    matches!((enc, len), (Enc::Int { .. }, Len::None) | (_, Len::Fixed(_)))
}

/// Well-formed struct definitions (DESIGN §8 C12 grammar).
pub fn gen_schema(seed: u64, n: usize) -> Schema {
    let mut rng = Rng::derive(seed, 0xC12);
    let mut schema = Schema::default();
    let mut metas: Vec<Meta> = vec![];
    for si in 0..n {
        let key = format!("G{si}");
        let nested: Vec<(String, usize, bool)> = schema.order.iter().zip(metas.iter()).map(|(k, m)| (k.clone(), m.depth, m.fixed_positional_only)).collect();
        let n_fields = match rng.below(10) {
            0 => 0,
            1 => 1,
            2 => 8,
            _ => 2 + rng.below(6) as usize,
        };
        let n_pos = if n_fields == 0 { 0 } else { (rng.below(4) as usize).min(n_fields) * (rng.below(3) as usize).min(1) + if rng.chance(1, 6) { n_fields } else { 0 } };
        let n_pos = n_pos.min(n_fields);
        let n_tagged = n_fields - n_pos;
        let mut used_tags = BTreeSet::new();
        let mut fields = vec![];
        let mut depth = 0usize;
        let mut all_fixed = n_tagged == 0;
        for i in 0..n_pos {
            let last_overall = i + 1 == n_fields;
            let card = match rng.below(10) {
                0 | 1 => Card::Opt,
                2 if !last_overall || true => Card::Many,
                _ => Card::One,
            };
            let greedy_ok = last_overall && card != Card::Many;
            let (enc, mut len, d) = pick_enc_len(&mut rng, &nested, 2, greedy_ok, card == Card::Many);
            if card == Card::Many && matches!(len, Len::None | Len::Fixed(_)) {
                // repeated positional elements must carry a length prefix
                len = Len::Ber;
            }
            depth = depth.max(d);
            if card != Card::One || !fixed_size(&enc, &len) || matches!(enc, Enc::Struct(_)) {
                all_fixed = false;
            }
            fields.push(Field { name: format!("f{i}"), card, tag: None, len, enc });
        }
        for j in 0..n_tagged {
            let i = n_pos + j;
            let last = j + 1 == n_tagged;
            let card = match rng.below(10) {
                0 | 1 => Card::One,
                2 | 3 => Card::Many,
                _ => Card::Opt,
            };
            let greedy_ok = last && card != Card::Many && rng.chance(1, 3);
            let (enc, len, d) = pick_enc_len(&mut rng, &nested, 2, greedy_ok, card == Card::Many);
            depth = depth.max(d);
            let tag = pick_tag(&mut rng, &mut used_tags);
            fields.push(Field { name: format!("f{i}"), card, tag: Some(tag), len, enc });
        }
        for f in &fields {
            if let Enc::Struct(k) = &f.enc {
                let idx = schema.order.iter().position(|x| x == k).unwrap();
                metas[idx].referenced = true;
            }
        }
        schema.add(StructDef { key, cf: None, fields });
        metas.push(Meta { depth, fixed_positional_only: all_fixed && n_fields > 0, referenced: false });
    }
    // control fields on a part of the top-level structs
    let mut used_cf = BTreeSet::new();
    for (si, m) in metas.iter().enumerate() {
        if !m.referenced && rng.chance(2, 3) {
            let cf = loop {
                let c = (rng.byte(), rng.byte());
                if used_cf.insert(c) {
                    break c;
                }
            };
            let key = schema.order[si].clone();
            schema.structs.get_mut(&key).unwrap().cf = Some(cf);
        }
    }
    schema
}

fn rust_type(f: &Field) -> String {
    let base = match &f.enc {
        Enc::Int { ty, .. } | Enc::Bcd(ty) => ty.rust().to_string(),
        Enc::Cp437 | Enc::Hex | Enc::Utf8 => "String".into(),
        Enc::DateTime => "chrono::NaiveDateTime".into(),
        Enc::Struct(k) => k.clone(),
        Enc::Bytes | Enc::Rcpt => unreachable!(),
    };
    // users may write the container types with or without their path
    let long = f.name.bytes().last().map(|b| b % 3 == 0).unwrap_or(false);
    match f.card {
        Card::One => base,
        Card::Opt => format!("{}Option<{base}>", if long { "std::option::" } else { "" }),
        Card::Many => format!("{}Vec<{base}>", if long { "std::vec::" } else { "" }),
    }
}

fn attribute(f: &Field, rng: &mut Rng) -> String {
    let enc = match &f.enc {
        Enc::Int { be: true, .. } => Some("encoding::BigEndian"),
        Enc::Int { be: false, .. } | Enc::Cp437 | Enc::DateTime | Enc::Struct(_) => None,
        Enc::Bcd(_) => Some("encoding::Bcd"),
        Enc::Hex => Some("encoding::Hex"),
        Enc::Utf8 => Some("encoding::Utf8"),
        Enc::Bytes | Enc::Rcpt => unreachable!(),
    };
    let len = match &f.len {
        Len::None => None,
        Len::Fixed(n) => Some(format!("length::Fixed<{n}>")),
        Len::Ll => Some("length::Llv".to_string()),
        Len::Lll => Some("length::Lllv".to_string()),
        Len::Ber => Some("length::Tlv".to_string()),
        Len::Temp => unreachable!(),
    };
    // the zvt_tlv form is the same as zvt_bmp with length::Tlv
    if let (Some(tag), Len::Ber, true) = (f.tag, &f.len, rng.chance(1, 2)) {
        let mut parts = vec![format!("tag = 0x{tag:x}")];
        if let Some(e) = enc {
            parts.push(format!("encoding = {e}"));
        }
        if rng.chance(1, 2) {
            parts.reverse();
        }
        return format!("#[zvt_tlv({})]", parts.join(", "));
    }
    let mut parts = vec![];
    if let Some(tag) = f.tag {
        parts.push(format!("number = 0x{tag:x}"));
    }
    if let Some(l) = len {
        parts.push(format!("length = {l}"));
    }
    if let Some(e) = enc {
        parts.push(format!("encoding = {e}"));
    }
    if parts.is_empty() {
        return String::new();
    }
    // the attribute grammar accepts its keys in any order
    rng.shuffle(&mut parts);
    format!("#[zvt_bmp({})]", parts.join(", "))
}

const PRELUDE: &str = r#"// GENERATED by zvtmon C12 -- do not edit.
#![allow(dead_code, unused_imports, clippy::all)]
use refcodec::engine::*;
use refcodec::evidence::Report;
use refcodec::layout::Schema;
use refcodec::val::Val;
use std::fmt::Debug;
use zvt::{encoding, length, Zvt, ZvtSerializer};

refcodec::fromval_prelude!();

fn short_name<T>() -> &'static str {
    std::any::type_name::<T>().rsplit("::").next().unwrap_or("?")
}

fn run<T>(bytes: &[u8]) -> Outcome
where
    T: ZvtSerializer + Debug + PartialEq,
    encoding::Default: encoding::Encoding<T>,
{
    match T::zvt_deserialize(bytes) {
        Err(e) => Outcome::Err(format!("{e:?}")),
        Ok((x, rest)) => {
            let rest = rest.len();
            let reenc = x.zvt_serialize();
            let _g = refcodec::runaway::begin("decode of the re-serialisation", short_name::<T>(), &reenc);
            let (re_eq, re_rest, re_err, re_debug) = match T::zvt_deserialize(&reenc) {
                Ok((y, r)) => (y == x, r.len(), None, format!("{y:?}")),
                Err(e) => (false, 0, Some(format!("{e:?}")), String::new()),
            };
            Outcome::Ok { debug: format!("{x:?}"), rest, reenc, re_eq, re_rest, re_err, re_debug }
        }
    }
}

fn decode_only<T>(bytes: &[u8]) -> Outcome
where
    T: ZvtSerializer + Debug,
    encoding::Default: encoding::Encoding<T>,
{
    match T::zvt_deserialize(bytes) {
        Err(e) => Outcome::Err(format!("{e:?}")),
        Ok((x, rest)) => Outcome::Ok { debug: format!("{x:?}"), rest: rest.len(), reenc: vec![], re_eq: true, re_rest: 0, re_err: None, re_debug: String::new() },
    }
}

fn build<T>(v: &Val) -> Option<Built>
where
    T: FromVal + ZvtSerializer + Debug + PartialEq,
    encoding::Default: encoding::Encoding<T>,
{
    let x = T::from_val(v)?;
    let enc = x.zvt_serialize();
    let _g = refcodec::runaway::begin("decode of its own serialisation", short_name::<T>(), &enc);
    let dec = match T::zvt_deserialize(&enc) {
        Ok((y, rest)) => Ok((y == x, rest.len(), format!("{y:?}"))),
        Err(e) => Err(format!("{e:?}")),
    };
    Some(Built { debug: format!("{x:?}"), enc, dec })
}
"#;

const MAIN_TAIL: &str = r#"
fn decode_eq<T>(bytes: &[u8], v: &Val) -> Option<bool>
where
    T: FromVal + ZvtSerializer + Debug + PartialEq,
    encoding::Default: encoding::Encoding<T>,
{
    let x = T::from_val(v)?;
    Some(matches!(T::zvt_deserialize(bytes), Ok((y, _)) if y == x))
}

struct Child;
impl Sut for Child {
    fn decode_eq(&mut self, key: &str, bytes: &[u8], want: &Val) -> Option<bool> {
        guarded(|| decode_eq_raw(key, bytes, want)).ok().flatten()
    }
    fn build(&mut self, key: &str, v: &Val) -> Option<Result<Built, String>> {
        match guarded(|| build_raw(key, v)) {
            Ok(None) => None,
            Ok(Some(b)) => Some(Ok(b)),
            Err(p) => Some(Err(p)),
        }
    }
    fn run(&mut self, key: &str, bytes: &[u8]) -> Outcome {
        match guarded(|| run_raw(key, bytes)) {
            Ok(o) => o,
            Err(p) => Outcome::Panic(p),
        }
    }
    fn decode(&mut self, key: &str, bytes: &[u8]) -> Outcome {
        match guarded(|| decode_raw(key, bytes)) {
            Ok(o) => o,
            Err(p) => Outcome::Panic(p),
        }
    }
}

fn main() {
    // args: <tier> <seed> <threads> <out.json> <per_type_random> <mutation_bases>
    //   or: decode-one <type> <hex> <report.json>   (one decode alone in this process, under the runaway monitor)
    let a: Vec<String> = std::env::args().collect();
    if a.get(1).map(|s| s.as_str()) == Some("decode-one") {
        install_panic_hook();
        install_log_sink();
        refcodec::runaway::start_watchdog_alone(a[4].clone(), std::time::Duration::from_secs(10), 1 << 20);
        let bytes = refcodec::unhex(&a[3]).unwrap();
        let _ = Sut::run(&mut refcodec::runaway::Watched(Child), &a[2], &bytes);
        return;
    }
    let tier = a[1].clone();
    let seed: u64 = a[2].parse().unwrap();
    let threads: usize = a[3].parse().unwrap();
    let out = a[4].clone();
    let per_type_random: usize = a[5].parse().unwrap();
    let mutation_bases: usize = a[6].parse().unwrap();
    let (prop, id) = match a.get(7).map(|s| s.as_str()) {
        Some("C13") => (Prop::C13, "C13"),
        Some("C14") => (Prop::C14, "C14"),
        _ => (Prop::All, "C12"),
    };
    install_panic_hook();
    install_log_sink();
    let schema = Schema::parse(include_str!("layout.txt"));
    let keys: Vec<String> = schema.order.clone();
    let mut report = Report::new(id, &tier, seed, "exploration");
    let plan = Plan { per_type_random, per_field_alone: 4, all_present: 4, mutation_bases, max_perms: 120, big: false };
    // a decode that does not come back / allocates without bound ends this process with exit code 3 and the
    // operations in flight in <out>.runaway (the parent runs each of them again, alone)
    refcodec::runaway::start_watchdog(format!("{out}.runaway"), std::time::Duration::from_secs(20), 2 << 20);
    let make: &(dyn Fn() -> Box<dyn Sut> + Sync) = &|| Box::new(refcodec::runaway::Watched(Child));
    run_types(threads, seed, &mut report, &schema, &keys, prop, id, &plan, make);
    presence_floor(&mut report, &schema, &keys);
    // a field that can never be present/absent canonically is the generator's business, not a verdict
    let gaps = report.inconclusive.clone();
    report.inconclusive.clear();
    report.extra.insert("presence_notes".into(), serde_json::json!(gaps));
    std::fs::write(&out, serde_json::to_string(&report.dump_json()).unwrap()).expect("write result");
}
"#;

/// Emit the generated crate; returns its directory.
pub fn emit_crate(schema: &Schema, dir: &Path, repo: &str, harness: &str, seed: u64) {
    let mut rng = Rng::derive(seed, 0xA77);
    let mut src = String::from(PRELUDE);
    for d in schema.iter() {
        src.push_str("\n#[derive(Debug, Default, PartialEq, Zvt)]\n");
        if let Some((c, i)) = d.cf {
            src.push_str(&format!("#[zvt_control_field(class = 0x{c:02x}, instr = 0x{i:02x})]\n"));
        }
        src.push_str(&format!("pub struct {} {{\n", d.key));
        for f in &d.fields {
            let attr = attribute(f, &mut rng);
            if !attr.is_empty() {
                src.push_str(&format!("    {attr}\n"));
            }
            src.push_str(&format!("    pub {}: {},\n", f.name, rust_type(f)));
        }
        src.push_str("}\n");
        // typed construction (field names only)
        src.push_str(&format!("impl FromVal for {} {{\n    #[allow(unused_variables)]\n    fn from_val(v: &Val) -> Option<Self> {{\n        let Val::Struct(_) = v else {{ return None }};\n        Some({} {{ {} }})\n    }}\n}}\nimpl Elem for {} {{}}\n", d.key, d.key, d.fields.iter().map(|f| format!("{}: FromVal::from_val(v.field(\"{}\")?)?", f.name, f.name)).collect::<Vec<_>>().join(", "), d.key));
    }
    for (fname, call) in [("run_raw", "run"), ("decode_raw", "decode_only")] {
        src.push_str(&format!("\nfn {fname}(key: &str, bytes: &[u8]) -> Outcome {{\n    match key {{\n"));
        for d in schema.iter() {
            src.push_str(&format!("        \"{}\" => {call}::<{}>(bytes),\n", d.key, d.key));
        }
        src.push_str("        _ => panic!(\"unknown type\"),\n    }\n}\n");
    }
    src.push_str("\nfn decode_eq_raw(key: &str, bytes: &[u8], v: &Val) -> Option<bool> {\n    match key {\n");
    for d in schema.iter() {
        src.push_str(&format!("        \"{}\" => decode_eq::<{}>(bytes, v),\n", d.key, d.key));
    }
    src.push_str("        _ => None,\n    }\n}\n");
    src.push_str("\nfn build_raw(key: &str, v: &Val) -> Option<Built> {\n    match key {\n");
    for d in schema.iter() {
        src.push_str(&format!("        \"{}\" => build::<{}>(v),\n", d.key, d.key));
    }
    src.push_str("        _ => None,\n    }\n}\n");
    src.push_str(MAIN_TAIL);
    std::fs::create_dir_all(dir.join("src")).expect("gen dir");
    // unchanged files keep their time stamps, so that cargo does not rebuild an identical crate (C12, C13 and C14 of one
    // seed share it)
    let write = |p: PathBuf, content: String| {
        if std::fs::read_to_string(&p).ok().as_deref() != Some(content.as_str()) {
            std::fs::write(&p, content).unwrap();
        }
    };
    write(dir.join("src/main.rs"), src);
    write(dir.join("src/layout.txt"), schema.to_text());
    let cargo = format!(
        "[package]\nname = \"gen_derive_sut\"\nversion = \"0.0.0\"\nedition = \"2021\"\n\n[workspace]\n\n[dependencies]\nzvt = {{ path = \"{repo}/zvt\" }}\nzvt_builder = {{ path = \"{repo}/zvt_builder\" }}\nrefcodec = {{ path = \"{harness}/refcodec\" }}\nlog = \"0.4.19\"\nchrono = \"0.4.24\"\nserde_json = \"1.0.105\"\n\n[profile.release]\nopt-level = 1\noverflow-checks = true\ndebug-assertions = true\ndebug = 0\nincremental = false\ncodegen-units = 16\n"
    );
    write(dir.join("Cargo.toml"), cargo);
    if !dir.join("Cargo.lock").exists() {
        let _ = std::fs::copy(format!("{harness}/Cargo.lock"), dir.join("Cargo.lock"));
    }
}

pub fn run(ctx: &Ctx) -> i32 {
    let mut report = ctx.report("C12", "exploration");
    let (n_crates, n_structs, per_type, bases) = if ctx.quick() { (1usize, 160usize, 150usize, 24usize) } else { (16, 320, 2000, 300) };
    report.rule = format!("{n_crates} generated crate(s) x {n_structs} struct definitions drawn from the attribute grammar of the derive macro (<= 8 fields, nesting <= 3, positional before tagged, distinct representable tags, repeated fields tagged or length-prefixed, rest-of-scope fields only last; types u8..u64/usize/String/NaiveDateTime/Option/Vec/nested; length styles none/Fixed/LLVAR/LLLVAR/BER; encodings Default/BigEndian/Bcd/Hex/Utf8; zvt_bmp and zvt_tlv forms; optional control field), compiled against /repo and run; per struct: systematic presence masks + {per_type} random canonical values judged as in C01/C03 (typed value constructed, serialised, deserialised; both directions against the reference codec interpreting the generator's own description), and the C13/C14 mutations on {bases} base values per struct. Non-trivial = non-empty encoding; distinct by hash of (type, bytes) within a crate, crates have disjoint types.");
    report.exhaustive = Some(false);
    report.assumptions = vec!["the generator only emits definitions inside the macro's documented grammar; a generated crate that does not compile makes the run inconclusive".into(), "the reference codec interprets the generator's own description of each struct (layout.txt next to the generated source)".into()];
    if let Some(rc) = run_generated(ctx, &mut report, "C12", n_crates, n_structs, per_type, bases) {
        return rc;
    }
    report.finish()
}

/// Generate `n_crates` crates of struct definitions, build them against the repository and run the engine for property
/// `id` ("C12": everything; "C13" / "C14": only that property's mutations) on them; results are absorbed into `report`.
/// The crate of a given (seed, k, n_structs) is identical for every id, so that it is built once.
/// The generated program ended itself because an operation did not come back or memory ran away (exit code 3): run every
/// operation that was in flight again, alone in a fresh process.  One that again does not come back within 10 s or grows
/// beyond 1 GiB is a violation (no value, no error); if none does, the run is inconclusive.
fn runaway_verdict(report: &mut Report, id: &str, k: usize, out: &Path, bin: Option<PathBuf>) {
    let path = PathBuf::from(format!("{}.runaway", out.display()));
    let text = std::fs::read_to_string(&path).unwrap_or_default();
    let _ = std::fs::remove_file(&path);
    let (Ok(j), Some(bin)) = (serde_json::from_str::<serde_json::Value>(&text), bin) else {
        report.inconclusive(&format!("generated crate {k}: the program ended itself as runaway but left no readable report"));
        return;
    };
    let reason = j["reason"].as_str().unwrap_or("?").to_string();
    let dir = out.parent().map(|p| p.to_path_buf()).unwrap_or_default();
    let src = std::fs::read_to_string(dir.join("src/main.rs")).unwrap_or_default();
    let layout = std::fs::read_to_string(dir.join("src/layout.txt")).unwrap_or_default();
    let mut confirmed = 0;
    let mut seen = BTreeSet::new();
    for op in j["ops"].as_array().cloned().unwrap_or_default().iter().take(16) {
        let (Some(ty), Some(hexs), Some(kind)) = (op["type"].as_str(), op["bytes"].as_str(), op["kind"].as_str()) else { continue };
        if kind == "construct + serialise" || !seen.insert((ty.to_string(), hexs.to_string())) {
            continue;
        }
        let rep = dir.join("decode-one.runaway");
        let _ = std::fs::remove_file(&rep);
        let st = std::process::Command::new(&bin).args(["decode-one", ty, hexs, rep.to_str().unwrap()]).stdout(std::process::Stdio::null()).stderr(std::process::Stdio::null()).status();
        let again = std::fs::read_to_string(&rep).ok().and_then(|t| serde_json::from_str::<serde_json::Value>(&t).ok());
        let _ = std::fs::remove_file(&rep);
        match (st, again) {
            (Ok(s), Some(a)) if s.code() == Some(refcodec::runaway::EXIT_RUNAWAY) => {
                confirmed += 1;
                let def = src.split("\n#[derive(Debug, Default, PartialEq, Zvt)]\n").find(|b| b.contains(&format!("pub struct {ty} {{"))).map(|b| b.split("impl FromVal").next().unwrap_or("").to_string());
                let lay = layout.split("\n\n").find(|b| b.starts_with(&format!("struct {ty}\n")) || b.starts_with(&format!("struct {ty} "))).map(|s| s.to_string());
                report.violation(
                    &format!("{id} generated type: a decode does not come back (no value, no error)"),
                    &format!("crate {k} type {ty}: {kind} of {} bytes: in the run: {reason}; alone in a fresh process: {}", hexs.len() / 2, a["reason"].as_str().unwrap_or("?")),
                    json!({"kind": "derive-runaway", "type": ty, "bytes": hexs, "operation": kind, "program": def, "layout": lay, "confirm_cmd": format!("{} decode-one {ty} {hexs} /dev/null", bin.display())}),
                );
            }
            _ => {}
        }
    }
    if confirmed == 0 {
        report.inconclusive(&format!("generated crate {k}: the program ended itself ({reason}); none of the {} operations in flight did it again alone", j["ops"].as_array().map(|a| a.len()).unwrap_or(0)));
    }
}

pub fn run_generated(ctx: &Ctx, report: &mut Report, id: &str, n_crates: usize, n_structs: usize, per_type: usize, bases: usize) -> Option<i32> {
    let repo = std::env::var("VERIF_REPO_PATH").unwrap_or_else(|_| "/repo".into());
    let harness = std::env::var("VERIF_HARNESS").unwrap_or_else(|_| "/verif/harness".into());
    let work = PathBuf::from(std::env::var("VERIF_WORK").unwrap_or_else(|_| "/verif/.build/main".into()));
    let mut programs = 0u64;
    let results: Vec<Result<serde_json::Value, String>> = std::thread::scope(|s| {
        let handles: Vec<_> = (0..n_crates)
            .map(|k| {
                let (repo, harness, work) = (repo.clone(), harness.clone(), work.clone());
                let ctx = ctx.clone();
                s.spawn(move || -> Result<serde_json::Value, String> {
                    let seed = ctx.seed.wrapping_mul(1000).wrapping_add(k as u64);
                    let schema = gen_schema(seed, n_structs);
                    let dir = work.join("gen").join(format!("crate{k}-{n_structs}"));
                    emit_crate(&schema, &dir, &repo, &harness, seed);
                    // crates are built one after the other into a shared target directory (dependencies compiled once)
                    Ok(json!({"dir": dir.to_string_lossy(), "seed": seed, "structs": schema.order.len()}))
                })
            })
            .collect();
        handles.into_iter().map(|h| h.join().unwrap()).collect()
    });
    let target = work.join("gen-target");
    let threads_per = (ctx.threads / n_crates.min(4)).max(1);
    let mut dumps = vec![];
    // build sequentially (cargo parallelises internally), then run up to 4 at a time
    let mut bins = vec![];
    for (k, res) in results.iter().enumerate() {
        let info = res.as_ref().unwrap();
        let dir = info["dir"].as_str().unwrap().to_string();
        let out = std::process::Command::new("cargo")
            .args(["build", "--offline", "--release", "--quiet"])
            .current_dir(&dir)
            .env("CARGO_TARGET_DIR", target.join(format!("t{}", k % 4)))
            .env("CARGO_NET_OFFLINE", "true")
            .output();
        match out {
            Ok(o) if o.status.success() => {
                let bin = target.join(format!("t{}", k % 4)).join("release/gen_derive_sut");
                let keep = PathBuf::from(&dir).join("sut-bin");
                let _ = std::fs::copy(&bin, &keep);
                bins.push((k, keep, dir.clone(), info["seed"].as_u64().unwrap()));
                programs += info["structs"].as_u64().unwrap();
            }
            Ok(o) => {
                let err = String::from_utf8_lossy(&o.stderr);
                let first = err.lines().filter(|l| l.starts_with("error")).take(3).collect::<Vec<_>>().join(" | ");
                report.inconclusive(&format!("generated crate {k} (seed {}) does not compile: {first}", info["seed"]));
                let _ = std::fs::write(PathBuf::from(&dir).join("build-error.txt"), err.as_bytes());
            }
            Err(e) => report.inconclusive(&format!("cannot run cargo for the generated crate: {e}")),
        }
    }
    if std::env::var("VERIF_C12_PREBUILD").is_ok() {
        // setup: only warm the dependency build of the generated crates
        println!("C12 prebuild: {} crate(s) built", bins.len());
        return Some(if bins.is_empty() { 2 } else { 0 });
    }
    for chunk in bins.chunks(4) {
        let children: Vec<_> = chunk
            .iter()
            .map(|(k, bin, dir, seed)| {
                let out = PathBuf::from(dir).join(format!("result-{id}.json"));
                let _ = std::fs::remove_file(&out);
                let child = std::process::Command::new(bin)
                    .args([ctx.tier.as_str(), &seed.to_string(), &threads_per.to_string(), out.to_str().unwrap(), &per_type.to_string(), &bases.to_string(), id])
                    .stdout(std::process::Stdio::null())
                    .spawn();
                (*k, out, child)
            })
            .collect();
        for (k, out, child) in children {
            match child {
                Ok(mut c) => {
                    let st = c.wait();
                    match (st, std::fs::read_to_string(&out)) {
                        (Ok(s), Ok(text)) if s.success() => match serde_json::from_str::<serde_json::Value>(&text) {
                            Ok(v) => dumps.push((k, v)),
                            Err(e) => report.inconclusive(&format!("generated crate {k}: unreadable result: {e}")),
                        },
                        (Ok(s), _) if s.code() == Some(refcodec::runaway::EXIT_RUNAWAY) => runaway_verdict(report, id, k, &out, chunk.iter().find(|b| b.0 == k).map(|b| b.1.clone())),
                        (st, _) => report.inconclusive(&format!("generated crate {k}: the program did not finish normally ({st:?})")),
                    }
                }
                Err(e) => report.inconclusive(&format!("generated crate {k}: cannot start: {e}")),
            }
        }
    }
    for (k, v) in &dumps {
        // attach the struct's source to every violation's replay
        let mut v = v.clone();
        let dir = work.join("gen").join(format!("crate{k}-{n_structs}"));
        if let Some(arr) = v["violations"].as_array_mut() {
            let src = std::fs::read_to_string(dir.join("src/main.rs")).unwrap_or_default();
            let layout = std::fs::read_to_string(dir.join("src/layout.txt")).unwrap_or_default();
            for x in arr.iter_mut() {
                let ty = x["replay"]["type"].as_str().unwrap_or("").to_string();
                let def = src.split("\n#[derive(Debug, Default, PartialEq, Zvt)]\n").find(|b| b.contains(&format!("pub struct {ty} {{"))).map(|b| b.split("impl FromVal").next().unwrap_or("").to_string());
                let lay = layout.split("\n\n").find(|b| b.starts_with(&format!("struct {ty}\n")) || b.starts_with(&format!("struct {ty} "))).map(|s| s.to_string());
                x["replay"]["kind"] = json!("derive");
                x["replay"]["program"] = json!(def);
                x["replay"]["layout"] = json!(lay);
                // signatures of generated types are made stable across seeds: strip the struct's ordinal
                let sig = x["signature"].as_str().unwrap_or("").to_string();
                x["signature"] = json!(format!("{id} generated type {}", refcodec::evidence::strip_numbers(&sig)).replacen("C12 generated type ", "C12 ", 1));
            }
        }
        report.absorb_json(&v);
    }
    report.extra.insert("programs".into(), json!(programs));
    report.extra.insert("generated_crates".into(), json!(n_crates));
    report.extra.insert("disagreements_checked".into(), json!(report.violation_count));
    if dumps.is_empty() && report.inconclusive.is_empty() {
        report.inconclusive("no generated crate produced a result");
    }
    // sample: one generated definition
    if let Some(Ok(info)) = results.first() {
        if let Ok(src) = std::fs::read_to_string(PathBuf::from(info["dir"].as_str().unwrap()).join("src/main.rs")) {
            if let Some(b) = src.split("\n#[derive(Debug, Default, PartialEq, Zvt)]\n").nth(3) {
                report.sample(json!({"generated_struct": b.split("impl FromVal").next().unwrap_or("")}));
            }
        }
    }
    // disk hygiene: keep sources of the last run (small), drop nothing else here; target dirs are reused across runs
    None
}
