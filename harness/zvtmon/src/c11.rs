//! C11 — firmware upload sends exactly the requested bytes of the right file.

use crate::script::Chunking;
use crate::seq::*;
use crate::Ctx;
use refcodec::evidence::{sharded, Report};
use refcodec::prng::{fnv, Rng};
use serde_json::json;
use std::collections::BTreeMap;

fn pick_block(rng: &mut Rng) -> u32 {
    match rng.below(14) {
        0 => 1,
        1 => 2,
        2 => 127,
        3 => 128,
        4 => 253,
        5 => 254,
        6 => 255,
        7 => 256,
        8 => 257,
        9 => 1024,
        10 => 32767,
        11 => 32768,
        12 => 1 + rng.below(32768) as u32,
        _ => 1 + rng.below(600) as u32,
    }
}

fn pick_size(rng: &mut Rng, block: u32, big: bool) -> usize {
    match rng.below(12) {
        0 => 0,
        1 => 1,
        2 => block.saturating_sub(1) as usize,
        3 => block as usize,
        4 => block as usize + 1,
        5 if big => 65535,
        6 if big => 65536,
        7 if big => 200 * 1024,
        8 => 2 * block as usize,
        _ => rng.below(if big { 5000 } else { 700 }) as usize,
    }
}

fn one_upload(r: &mut Report, rng: &mut Rng, shard: usize, schema: &refcodec::layout::Schema, pools: &Pools, quick: bool) {
    let block = pick_block(rng);
    let big = rng.chance(1, if quick { 12 } else { 5 });
    // payload directory: random subset of the recognised paths + unrelated files / sub-directories
    let mut files: BTreeMap<u8, Vec<u8>> = BTreeMap::new();
    let density = *rng.pick(&[1u64, 3, 8, 20, 21]);
    for (_, id) in RECOGNISED.iter() {
        if rng.chance(density, 21) {
            let n = pick_size(rng, block, big);
            files.insert(*id, rng.bytes(n));
        }
    }
    if files.is_empty() {
        let id = RECOGNISED[rng.below(21) as usize].1;
        let n = pick_size(rng, block, big);
        files.insert(id, rng.bytes(n));
    }
    let extra: Vec<(&str, Vec<u8>)> = vec![
        ("firmware/other.bin", rng.bytes(10)),
        ("app0/update.spec.bak", rng.bytes(3)),
        ("app8/update.spec", rng.bytes(5)),
        ("kernel.gz", rng.bytes(7)),
        ("firmware/sub/dir/kernel.gz", rng.bytes(9)),
        ("README", vec![]),
        // unrelated files whose *last* path components look like a recognised path, elsewhere in the tree
        ("backup/app0/update.spec", rng.bytes(11)),
        ("firmware/old/firmware/kernel.gz", rng.bytes(13)),
        ("app1/app1/update.tar.gz", rng.bytes(4)),
        ("old/firmware/update.spec", rng.bytes(6)),
    ]
    .into_iter()
    .filter(|_| rng.chance(1, 2))
    .collect();
    let dir = PayloadDir::create(&format!("c11-{shard}"), &files, &extra);
    let sizes: BTreeMap<u8, u32> = files.iter().map(|(k, v)| (*k, v.len() as u32)).collect();
    let params = WriteFileParams { dir: dir.dir.clone(), password: rng.below(1_000_000) as usize, block };
    let announce = WfCodec::announce(params.password as u128, &sizes);
    let ids: Vec<u8> = files.keys().cloned().collect();

    // request script
    let max_req = if quick { 48 } else { 200 };
    let style = rng.below(7);
    let mut requests: Vec<(u8, u32)> = vec![];
    match style {
        0 => {
            // sequential full download of every file (as far as the request budget goes), ends one request past the end
            'outer: for id in &ids {
                let size = files[id].len() as u32;
                let mut off = 0u32;
                loop {
                    requests.push((*id, off));
                    if requests.len() >= max_req {
                        break 'outer;
                    }
                    if off >= size {
                        break;
                    }
                    off = off.saturating_add(block);
                }
            }
        }
        1 => {
            // any order, repeated, overlapping
            for _ in 0..1 + rng.below(max_req as u64 / 2) {
                let id = *rng.pick(&ids);
                let size = files[&id].len() as u64;
                requests.push((id, rng.below(size + 2) as u32));
            }
        }
        2 => {
            // boundaries: offset = size, size - 1, size + 1, far beyond, u32::MAX
            for id in &ids {
                let size = files[id].len() as u32;
                for off in [size, size.saturating_sub(1), size + 1, size.saturating_sub(block), size + 100_000, u32::MAX, 0] {
                    requests.push((*id, off));
                }
            }
            requests.truncate(max_req);
        }
        3 => {
            for _ in 0..rng.below(6) {
                let id = *rng.pick(&ids);
                requests.push((id, rng.below(files[&id].len() as u64 + 1) as u32));
            }
        }
        5 => {
            // round robin: every file in turn (shuffled), several rounds - each file is come back to after all the others
            let mut order = ids.clone();
            rng.shuffle(&mut order);
            for round in 0..3u32 {
                for id in &order {
                    let size = files[id].len() as u32;
                    requests.push((*id, (round.saturating_mul(block)).min(size)));
                }
            }
            requests.truncate(max_req.max(3 * order.len()).min(80));
        }
        _ => {
            // tail of the largest file, block by block backwards
            let id = *ids.iter().max_by_key(|i| files[*i].len()).unwrap();
            let size = files[&id].len() as u32;
            let mut off = size;
            for _ in 0..max_req.min(12) {
                requests.push((id, off));
                off = off.saturating_sub(block);
            }
        }
    }
    // now and then the terminal's requests carry more than the id and the offset (a size element, a payload element of
    // their own): what is answered is still the file's bytes at that offset and nothing else
    let decorated = rng.chance(1, 6);
    let replies: Vec<Reply> = requests
        .iter()
        .map(|(id, off)| {
            let bytes = if decorated {
                let mut extra: Vec<(u16, Vec<u8>)> = vec![];
                if rng.chance(1, 2) {
                    extra.push((0x1f00, (rng.below(1 << 20) as u32).to_be_bytes().to_vec()));
                }
                if extra.is_empty() || rng.chance(2, 3) {
                    let n = 1 + rng.below(60) as usize;
                    extra.push((0x1c, rng.bytes(n)));
                }
                r.count("data_requests_carrying_further_elements", 1);
                if rng.chance(1, 3) {
                    WfCodec::request_with(*id, *off, &extra, &[])
                } else {
                    WfCodec::request_with(*id, *off, &[], &extra)
                }
            } else {
                WfCodec::request(Some(*id), Some(*off), true, true)
            };
            Reply {
                variant: "RequestForData".into(),
                item_debug: item_debug(
                    "RequestForData",
                    "feig::packets::RequestForData",
                    &bytes,
                    &format!("RequestForData {{ tlv: Some(WriteData {{ file: Some(File {{ file_id: Some({id}), file_offset: Some({off}), file_size: None, payload: None }}) }}) }}"),
                ),
                bytes,
                answer: WfCodec::data_block(*id, *off, slice_of(&files[id], *off, block)),
            }
        })
        .collect();
    let sd = refcodec::tables::STREAMS.iter().find(|s| s.name == "feig::WriteFile").unwrap();
    let mk_check = || CmdCheck::WriteFile { password: params.password as u128, files: sizes.clone(), len: announce.len() };
    let (chunking, pend) = if rng.chance(1, 3) { (Chunking::Bytewise, true) } else { (Chunking::Whole, false) };
    let mut h = fnv(&announce) ^ (block as u64) << 20;
    for (id, off) in &requests {
        h = h.wrapping_mul(0x100000001b3) ^ ((*id as u64) << 32 | *off as u64);
    }
    r.count("data_requests", requests.len() as u64);
    r.count("files_announced", sizes.len() as u64);
    r.count("bytes_requested", requests.iter().map(|(id, off)| slice_of(&files[id], *off, block).len() as u64).sum());
    r.note("block_sizes_seen", &format!("{block:05}"));
    for (id, off) in &requests {
        let size = files[id].len() as u32;
        r.note("offset_classes_seen", if *off == 0 { "0" } else if *off < size { "inside" } else if *off == size { "at-end" } else { "beyond-end" });
    }
    // ending: completion / abort / an invalid request
    let ending = rng.below(4);
    if ending <= 1 {
        let fin = make_final(sd, pools, rng, if ending == 0 { "CompletionData" } else { "Abort" });
        let mut all = replies.clone();
        all.push(fin);
        let ex = Exchange {
            stream: "feig::WriteFile",
            cmd_bytes: announce.clone(),
            cmd_check: mk_check(),
            ack: ACK.to_vec(),
            final_at: Some(all.len() - 1),
            replies: all,
            junk: if rng.chance(1, 2) { vec![] } else { rng.bytes(5) },
            chunking,
            pend_between: pend,
            write_chunk: if rng.chance(1, 4) { Some(1 + rng.below(500) as usize) } else { None },
            fault: None,
            wf: Some(&params),
        };
        r.case(h ^ ending, !requests.is_empty());
        r.count(if ending == 0 { "uploads_ending_in_completion" } else { "uploads_ending_in_abort" }, 1);
        ex.check_c05(r, schema, "C11");
    } else {
        // an invalid request: unknown id, recognised-but-absent id, missing id, missing offset, missing file, missing container
        let absent: Vec<u8> = RECOGNISED.iter().map(|x| x.1).filter(|i| !files.contains_key(i)).collect();
        let kind = rng.below(6);
        let (name, bytes): (&'static str, Vec<u8>) = match kind {
            0 => ("unknown-id", WfCodec::request(Some(*rng.pick(&[0x00u8, 0x01, 0x0f, 0x15, 0x2a, 0x36, 0x99, 0xff])), Some(0), true, true)),
            1 if !absent.is_empty() => ("recognised-but-not-announced-id", WfCodec::request(Some(*rng.pick(&absent)), Some(0), true, true)),
            2 => ("missing-id", WfCodec::request(None, Some(rng.below(100) as u32), true, true)),
            3 => ("missing-offset", WfCodec::request(Some(*rng.pick(&ids)), None, true, true)),
            4 => ("missing-file-container", WfCodec::request(None, None, true, false)),
            _ => ("missing-tlv-container", WfCodec::request(None, None, false, false)),
        };
        let ex = Exchange {
            stream: "feig::WriteFile",
            cmd_bytes: announce.clone(),
            cmd_check: mk_check(),
            ack: ACK.to_vec(),
            replies,
            final_at: None,
            junk: vec![],
            chunking,
            pend_between: pend,
            write_chunk: None,
            fault: Some(Fault { kind: name, at_ack: false, bytes, eof: false, followed_by: vec![] }),
            wf: Some(&params),
        };
        r.case(h ^ (0x100 + kind), true);
        r.count(&format!("invalid_requests.{name}"), 1);
        ex.check_c06(r, schema, "C11");
    }
    if r.wants_sample() && !requests.is_empty() {
        r.sample(json!({"files": sizes, "unrelated_files": extra.iter().map(|e| e.0).collect::<Vec<_>>(), "block": block, "requests": requests.iter().take(6).collect::<Vec<_>>(), "n_requests": requests.len()}));
    }
}

fn make_final(sd: &refcodec::tables::StreamDef, pools: &Pools, rng: &mut Rng, variant: &str) -> Reply {
    let key = variant_key(sd, variant);
    let (bytes, dbg) = pools.pick(rng, key).clone();
    Reply { variant: variant.to_string(), item_debug: item_debug(variant, key, &bytes, &dbg), bytes, answer: ACK.to_vec() }
}

/// A long upload: one 40000-byte file fetched again and again in maximal blocks until far more than 2^32 / 100 bytes
/// have been sent in the one exchange (whatever is counted across requests must not run over).
fn volume_upload(r: &mut Report, rng: &mut Rng, shard: usize, schema: &refcodec::layout::Schema, pools: &Pools, n_requests: usize) {
    let mut files: BTreeMap<u8, Vec<u8>> = BTreeMap::new();
    files.insert(0x10, rng.bytes(40_000));
    let dir = PayloadDir::create(&format!("c11-vol-{shard}"), &files, &[]);
    let sizes: BTreeMap<u8, u32> = files.iter().map(|(k, v)| (*k, v.len() as u32)).collect();
    let block = 32768u32;
    let params = WriteFileParams { dir: dir.dir.clone(), password: 123456, block };
    let announce = WfCodec::announce(params.password as u128, &sizes);
    let replies: Vec<Reply> = (0..n_requests)
        .map(|k| {
            let off = if k % 2 == 0 { 0u32 } else { 7232 };
            let b = WfCodec::request(Some(0x10), Some(off), true, true);
            Reply { variant: "RequestForData".into(), item_debug: item_debug("RequestForData", "feig::packets::RequestForData", &b, "?"), bytes: b, answer: WfCodec::data_block(0x10, off, slice_of(&files[&0x10], off, block)) }
        })
        .collect();
    let sd = refcodec::tables::STREAMS.iter().find(|s| s.name == "feig::WriteFile").unwrap();
    let mut all = replies;
    all.push(make_final(sd, pools, rng, "CompletionData"));
    let ex = Exchange { stream: "feig::WriteFile", cmd_bytes: announce.clone(), cmd_check: CmdCheck::WriteFile { password: 123456, files: sizes.clone(), len: announce.len() }, ack: ACK.to_vec(), final_at: Some(all.len() - 1), replies: all, junk: vec![], chunking: Chunking::Whole, pend_between: false, write_chunk: None, fault: None, wf: Some(&params) };
    r.case(fnv(b"volume") ^ n_requests as u64, true);
    r.count("volume_uploads", 1);
    r.count("bytes_requested", n_requests as u64 * 32768);
    ex.check_c05(r, schema, "C11");
}

/// One file beyond 41 MiB (bytes_sent x 100 no longer fits 32 bits): blocks around that mark, in the middle and at the end.
pub fn big_file_upload(r: &mut Report, rng: &mut Rng, shard: usize, schema: &refcodec::layout::Schema, pools: &Pools, id: &str) {
    let size = 43_100_000usize + rng.below(50_000) as usize;
    let mut content = rng.bytes(1 << 16);
    while content.len() < size {
        let n = content.len().min(size - content.len());
        content.extend_from_within(..n);
    }
    for (i, b) in content.iter_mut().enumerate().step_by(4099) {
        *b = (i / 4099) as u8; // breaks the period
    }
    let mut files: BTreeMap<u8, Vec<u8>> = BTreeMap::new();
    files.insert(0x10, content);
    let dir = PayloadDir::create(&format!("{id}-big-{shard}"), &files, &[]);
    let sizes: BTreeMap<u8, u32> = files.iter().map(|(k, v)| (*k, v.len() as u32)).collect();
    let block = 32768u32;
    let params = WriteFileParams { dir: dir.dir.clone(), password: 123456, block };
    let announce = WfCodec::announce(params.password as u128, &sizes);
    let mark = (u32::MAX / 100) as usize; // 42_949_672
    let mut offsets: Vec<u32> = vec![0, 1 << 24, (1 << 25) + 7, 40_000_000];
    for d in [-40_000i64, -32_769, -32_768, -32_767, -1, 0, 1, 32_768, 100_000] {
        offsets.push((mark as i64 + d) as u32);
    }
    for d in [40_000usize, 32_768, 1, 0] {
        offsets.push((size - d) as u32);
    }
    offsets.push(size as u32 + 1);
    let replies: Vec<Reply> = offsets
        .iter()
        .map(|off| {
            let b = WfCodec::request(Some(0x10), Some(*off), true, true);
            Reply { variant: "RequestForData".into(), item_debug: item_debug("RequestForData", "feig::packets::RequestForData", &b, "?"), bytes: b, answer: WfCodec::data_block(0x10, *off, slice_of(&files[&0x10], *off, block)) }
        })
        .collect();
    let sd = refcodec::tables::STREAMS.iter().find(|s| s.name == "feig::WriteFile").unwrap();
    let mut all = replies;
    all.push(make_final(sd, pools, rng, "CompletionData"));
    let ex = Exchange { stream: "feig::WriteFile", cmd_bytes: announce.clone(), cmd_check: CmdCheck::WriteFile { password: 123456, files: sizes.clone(), len: announce.len() }, ack: ACK.to_vec(), final_at: Some(all.len() - 1), replies: all, junk: vec![], chunking: Chunking::Whole, pend_between: false, write_chunk: None, fault: None, wf: Some(&params) };
    r.case(fnv(b"big-file") ^ size as u64, true);
    r.count("uploads_of_a_file_beyond_41_MiB", 1);
    r.count("data_requests", offsets.len() as u64);
    r.note("largest_file_bytes", &format!("{size:010}"));
    ex.check_c05(r, schema, id);
}

pub fn run(ctx: &Ctx) -> i32 {
    let mut report = ctx.report("C11", "exploration");
    report.rule = "uploads: a payload directory created by the harness (random subset of the 21 recognised paths, sizes {0, 1, block-1, block, block+1, 2*block, 65535, 65536, 200 KiB, random}, random content, plus unrelated files and sub-directories, among them files whose last path components equal a recognised path but that sit elsewhere in the tree) x block size {1, 2, 127, 128, 253..257, 1024, 32767, 32768, random} x a request script {sequential full download, any order/repeated/overlapping, round robin over all files (up to all 21) for three rounds, offsets at/after end of file and u32::MAX, short, backwards} ending in completion, abort or an invalid request; plus one long upload (one file fetched 1400 / 14000 times in 32 KiB blocks: 46 / 460 MB in one exchange) and one upload of a single 43 MB file with blocks around byte 42 949 672 (where bytes x 100 leaves 32 bits), in the middle and at the end; one upload in six with requests that carry further elements of the file container (a size, a payload of their own) in front of or behind id and offset; invalid requests {unknown id, recognised-but-absent id, missing id, missing offset, missing file container, missing TLV container}. Oracle over the scripted terminal's event log: the announcement decodes (reference codec) to exactly the set {(id, true size)}; every data request is answered by exactly the reference encoding of {id, offset, file[offset..min(offset+block,size)]} (empty = absent payload) before the next read; an invalid request yields one error, no data, end. Non-trivial = upload with at least one data request; distinct by hash of (announcement, block, requests, ending).".into();
    report.exhaustive = Some(false);
    report.assumptions = vec!["files and directories are created under /verif/.build/<work>/scratch and removed afterwards".into(), "files > 4 GiB (u32 truncation) are not exercised".into()];
    let schema = refcodec::zvt_schema();
    let pools = Pools::build(&schema, ctx.seed, 6);
    let n = ctx.by(4_000usize, 300_000usize);
    let threads = ctx.threads;
    let seed = ctx.seed;
    let quick = ctx.quick();
    sharded(&mut report, threads, |shard, r| {
        if shard == 0 {
            // ~46 MB in one exchange (quick), ~460 MB (thorough)
            let mut vrng = Rng::derive(seed, 0xC11_F00);
            volume_upload(r, &mut vrng, shard, &schema, &pools, if quick { 1400 } else { 14_000 });
        }
        if shard == 1 % threads {
            let mut vrng = Rng::derive(seed, 0xC11_B16);
            big_file_upload(r, &mut vrng, shard, &schema, &pools, "C11");
        }
        let mut rng = Rng::derive(seed, 0xC11 + shard as u64);
        for _ in 0..n / threads {
            one_upload(r, &mut rng, shard, &schema, &pools, quick);
        }
    });
    crate::also_in_release_build(&mut report, "C11", ctx);
    report.finish()
}
