//! C09 (a failed connection is never reused; fresh ones are vetted) and
//! C10 (no stall or configuration value can hang a call): fault enumeration
//! over every packet position of every public client operation.

use crate::client::*;
use crate::sim::*;
use crate::Ctx;
use refcodec::evidence::{sharded, Report};
use refcodec::prng::{fnv, Rng};
use serde_json::json;
use std::collections::BTreeMap;
use std::sync::Arc;

#[derive(Clone, Copy, Debug, PartialEq, Eq, Hash, PartialOrd, Ord)]
pub enum Op {
    New,
    Configure,
    ReadCard,
    Begin,
    Commit,
    Cancel,
    /// commit / cancel of one transaction while another one stays open (transactions_max_num 2)
    CommitOtherOpen,
    CancelOtherOpen,
    /// begin of a second transaction while one is open
    BeginOtherOpen,
}

pub const OPS: [Op; 9] = [Op::New, Op::Configure, Op::ReadCard, Op::Begin, Op::Commit, Op::Cancel, Op::CommitOtherOpen, Op::CancelOtherOpen, Op::BeginOtherOpen];

/// Scenario skeleton for an operation: (calls, index of the call under test).  A further operation follows to observe reuse.
pub fn skeleton(op: Op, cfg: &ClientCfg) -> (Scenario, usize) {
    let mut sc = Scenario { cfg: cfg.clone(), ..Scenario::default() };
    sc.sim_serial = cfg.serial.clone();
    // the terminal reports another terminal id than configured, so that configure also runs SetTerminalId
    sc.sim_terminal_id = "11112222".into();
    let (calls, idx) = match op {
        Op::New => (vec![Call::ReadCard], 1),
        Op::Configure => (vec![Call::Configure, Call::ReadCard], 2),
        Op::ReadCard => (vec![Call::ReadCard, Call::Begin("z".into())], 2),
        Op::Begin => (vec![Call::Begin("a".into()), Call::ReadCard], 2),
        Op::Commit => (vec![Call::Begin("a".into()), Call::Commit("a".into(), 1000), Call::ReadCard], 3),
        Op::Cancel => (vec![Call::Begin("a".into()), Call::Cancel("a".into()), Call::ReadCard], 3),
        Op::CommitOtherOpen => (vec![Call::Begin("a".into()), Call::Begin("b".into()), Call::Commit("a".into(), 1000), Call::ReadCard], 4),
        Op::CancelOtherOpen => (vec![Call::Begin("a".into()), Call::Begin("b".into()), Call::Cancel("a".into()), Call::ReadCard], 4),
        Op::BeginOtherOpen => (vec![Call::Begin("a".into()), Call::Begin("b".into()), Call::ReadCard], 3),
    };
    if matches!(op, Op::CommitOtherOpen | Op::CancelOtherOpen | Op::BeginOtherOpen) {
        sc.cfg.max_tx = 2;
    }
    sc.calls = calls;
    // a dangling pre-authorisation is reported during the clean-up of the call under test: one more exchange to hit
    if matches!(op, Op::Commit | Op::Cancel | Op::Configure) {
        // the terminal holds it until a reversal of it completes (it is reported again on every pending query)
        sc.plan.dangling_from_call = Some((idx, 88));
    }
    // a few intermediate packets so that "between two reply packets" exists everywhere
    match op {
        Op::ReadCard => sc.plan.push(idx, Cmd::ReadCard, ExPlan { pre: vec![Pre::Intermediate { status: 0x17, timeout: 0 }], ..ExPlan::default() }),
        Op::Begin | Op::BeginOtherOpen => sc.plan.push(idx, Cmd::Reservation, ExPlan { pre: vec![Pre::Intermediate { status: 0x0e, timeout: 0 }], ..ExPlan::default() }),
        _ => {}
    }
    (sc, idx)
}

/// How long the client under test waits for one packet before it gives the attempt up, measured on the client itself:
/// the terminal goes silent in front of the acknowledgement of a reservation and keeps the connection open; the time
/// until the client drops that connection.  Scenarios with a *slow but healthy* terminal scale their pauses with it,
/// so that they stay inside the per-packet wait whatever its value is.
pub fn measured_packet_wait_ms(schema: &Arc<refcodec::layout::Schema>) -> Option<u64> {
    static W: std::sync::OnceLock<Option<u64>> = std::sync::OnceLock::new();
    *W.get_or_init(|| {
        let (mut sc, idx) = skeleton(Op::Begin, &ClientCfg::default());
        sc.plan.faults.push(FaultSpec { call: idx, at: At::Point(Cmd::Reservation, 0), kind: FaultKind::Silence });
        let tr = run_scenario(&sc, schema);
        let fault = tr.log.iter().find(|e| e.call == idx && matches!(e.dir, Dir::Fault(FaultKind::Silence)))?;
        let eof = tr.log.iter().find(|e| e.conn == fault.conn && e.dir == Dir::Eof && e.t_ms >= fault.t_ms)?;
        Some((eof.t_ms - fault.t_ms).max(5_000))
    })
}

/// The grace the client under test gives a terminal beyond the configured read-card time-out, measured the same way
/// (read_card_timeout 15 s, the terminal silent in front of the acknowledgement): per-packet wait of read_card minus
/// the configured time-out.  Scenarios in which the terminal reports the end of its *own* card time-out "a little
/// later, still inside the client's grace" scale that little with it.  Floor 1 s: an answer that arrives within a
/// second after the terminal's own time-out has to be waited for whatever the client's margin is (assumption, stated
/// in the evidence); with the 2 s of the pinned tree the scenarios are what they always were.
pub fn measured_read_card_grace_ms(schema: &Arc<refcodec::layout::Schema>) -> u64 {
    static G: std::sync::OnceLock<u64> = std::sync::OnceLock::new();
    *G.get_or_init(|| {
        let mut sc = Scenario::default();
        sc.cfg.read_card_timeout = 15;
        sc.calls = vec![Call::ReadCard];
        sc.plan.faults.push(FaultSpec { call: 2, at: At::Point(Cmd::ReadCard, 0), kind: FaultKind::Silence });
        let tr = run_scenario(&sc, schema);
        let measured = (|| {
            let fault = tr.log.iter().find(|e| e.call == 2 && matches!(e.dir, Dir::Fault(FaultKind::Silence)))?;
            let eof = tr.log.iter().find(|e| e.conn == fault.conn && e.dir == Dir::Eof && e.t_ms >= fault.t_ms)?;
            Some((eof.t_ms - fault.t_ms).saturating_sub(15_000))
        })();
        measured.unwrap_or(2_000).clamp(1_000, 60_000)
    })
}

fn registration_bytes(cfg: &ClientCfg) -> Vec<u8> {
    // 06 00 len | password f3 bcd | DE | currency f2 bcd      (reference encoding, no TLV container)
    let mut body = vec![0u8; 3];
    let pb = refcodec::codec::bcd_bytes(cfg.password as u128);
    body[3 - pb.len()..].copy_from_slice(&pb);
    body.push(0xde);
    let cb = refcodec::codec::bcd_bytes(cfg.currency as u128);
    let mut c = vec![0u8; 2 - cb.len()];
    c.extend(cb);
    body.extend(c);
    let mut p = vec![0x06, 0x00, body.len() as u8];
    p.extend(body);
    p
}

const SYSINFO_REQUEST: [u8; 5] = [0x0f, 0xa1, 0x02, 0x00, 0x01];

/// The connection checker (DESIGN D.4) over one trace.  Returns the first broken rule.
pub fn check_connections(sc: &Scenario, tr: &Trace) -> Option<(String, String)> {
    // a call that ran into the watchdog (C10's subject) can leave thousands of connections behind: the rules are then
    // judged on the first 128 connections only (they are quadratic in the number of connections)
    if tr.log.iter().map(|e| e.conn).max().unwrap_or(0) > 128 {
        let cut = Trace { calls: tr.calls.clone(), log: tr.log.iter().filter(|e| e.conn <= 128).cloned().collect(), requests: vec![], ledger: vec![], tx_points: vec![], last_status: None };
        return check_connections(sc, &cut);
    }
    let reg = registration_bytes(&sc.cfg);
    let mut conns: BTreeMap<usize, Vec<&ConnEv>> = BTreeMap::new();
    for e in &tr.log {
        conns.entry(e.conn).or_default().push(e);
    }
    for (k, evs) in &conns {
        if !evs.iter().any(|e| e.dir == Dir::Open) {
            continue; // refused / stalled connect
        }
        let cmds: Vec<&&ConnEv> = evs.iter().filter(|e| e.dir == Dir::Rx && e.bytes != ACK).collect();
        // R1: registration with the configured password and currency first; the identity check (system-info request) second.
        // Judged on the decoded fields (reference codec): what else a registration carries is not part of the property.
        let schema = refcodec::zvt_schema();
        let codec = refcodec::codec::Codec::new(&schema);
        if let Some(first) = cmds.first() {
            let ok = match codec.decode(schema.get("packets::Registration"), &first.bytes) {
                Ok((v, rest)) => rest.is_empty() && v.field("password").and_then(|x| x.num()) == Some(sc.cfg.password as u128) && v.field("currency").and_then(|x| x.num()) == Some(sc.cfg.currency as u128),
                Err(_) => false,
            };
            if !ok {
                return Some(("R1: a new connection does not start with registration (configured password and currency)".into(), format!("connection {k}: first packet {}, expected e.g. {}", refcodec::hex(&first.bytes), refcodec::hex(&reg))));
            }
        }
        if let Some(second) = cmds.get(1) {
            let ok = match codec.decode(schema.get("feig::packets::CVendFunctions"), &second.bytes) {
                Ok((v, rest)) => rest.is_empty() && v.field("instr").and_then(|x| x.num()) == Some(1),
                Err(_) => false,
            };
            if !ok {
                return Some(("R1: the second command on a new connection is not the identity check (system-info request)".into(), format!("connection {k}: second command {}, expected e.g. {}", refcodec::hex(&second.bytes), refcodec::hex(&SYSINFO_REQUEST))));
            }
        }
        // R2: every further command only after the terminal reported the configured serial on this connection
        let vetted_at = evs.iter().position(|e| e.dir == Dir::Vetted);
        let mut ncmd = 0;
        for (i, e) in evs.iter().enumerate() {
            if e.dir == Dir::Rx && e.bytes != ACK {
                ncmd += 1;
                if ncmd >= 3 && vetted_at.map(|v| i < v).unwrap_or(true) {
                    return Some(("R2: a command is sent on a connection whose terminal has not been vetted".into(), format!("connection {k}: command {} before any system-info reply with the configured serial", refcodec::hex(&e.bytes[..e.bytes.len().min(24)]))));
                }
            }
        }
        // R3: nothing is written on a connection after a fault was injected on it
        if let Some(fi) = evs.iter().position(|e| matches!(e.dir, Dir::Fault(_))) {
            let kind = match &evs[fi].dir {
                Dir::Fault(k) => *k,
                _ => unreachable!(),
            };
            let after: Vec<u8> = evs[fi..].iter().filter(|e| e.dir == Dir::RxAfterFault).flat_map(|e| e.bytes.clone()).collect();
            let allowed: &[u8] = if kind == FaultKind::WrongSerial { &ACK } else { &[] };
            if after != allowed && !after.is_empty() {
                return Some((
                    format!("R3: the client keeps using a connection after a failure on it [{kind:?}]"),
                    format!("connection {k}: after the injected {kind:?} the client still wrote {}", refcodec::hex(&after[..after.len().min(40)])),
                ));
            }
        }
    }
    // R5: a terminal that identified itself with the configured serial (any letter case) is used, not abandoned
    for (k, evs) in &conns {
        let Some(vi) = evs.iter().position(|e| e.dir == Dir::Vetted) else { continue };
        if evs.iter().any(|e| matches!(e.dir, Dir::Fault(_))) {
            continue;
        }
        let call = evs[vi].call;
        let used_after = evs[vi..].iter().any(|e| e.dir == Dir::Rx && e.bytes != ACK);
        let reconnected = tr.log.iter().any(|e| e.call == call && e.conn > *k && matches!(e.dir, Dir::Open | Dir::ConnectRefused | Dir::ConnectStalled));
        if !used_after && reconnected && vi + 2 >= evs.iter().filter(|e| e.call == call).count().min(usize::MAX) {
            return Some(("R5: a terminal that reported the configured serial is abandoned".into(), format!("connection {k}: vetted in call {call}, no command followed, but the client connected again")));
        }
        if !used_after && reconnected {
            return Some(("R5: a terminal that reported the configured serial is abandoned".into(), format!("connection {k}: vetted in call {call}, no command followed, but the client connected again")));
        }
    }
    // R6: the client does not stay on a failed connection: when calls ran (and returned) after a failure and the
    //     last of them is an operation that needs the terminal, a connection attempt follows the failure
    if let Some(fi) = tr.log.iter().position(|e| matches!(e.dir, Dir::Fault(FaultKind::Close | FaultKind::CloseAfter | FaultKind::IdleClose))) {
        let f = &tr.log[fi];
        let later_attempt = tr.log[fi..].iter().any(|e| e.conn > f.conn && matches!(e.dir, Dir::Open | Dir::ConnectRefused | Dir::ConnectStalled));
        let follow_up = tr.calls.iter().filter(|c| c.index > f.call).last();
        if let Some(c) = follow_up {
            let needs_terminal = matches!(c.call, Some(Call::ReadCard) | Some(Call::Configure)) || (matches!(c.call, Some(Call::Begin(_))) && sc.calls.iter().filter(|x| matches!(x, Call::Begin(_))).count() == 1);
            if needs_terminal && !matches!(c.result, CallResult::Hang | CallResult::Panic(_)) && !later_attempt {
                return Some((
                    format!("R6: the client never leaves a connection the terminal closed [{:?}]", match &f.dir { Dir::Fault(k) => *k, _ => unreachable!() }),
                    format!("connection {} was closed by the terminal in call {}; {} further call(s) ran, the last ({}) returned {} - without any new connection attempt", f.conn, f.call, tr.calls.iter().filter(|c| c.index > f.call).count(), c.call.as_ref().map(|x| x.name()).unwrap_or("new"), c.result.short()),
                ));
            }
        }
    }
    // R3b: after a fault on k, later commands arrive on a newer connection (implied by R3 + passivity) and that one starts with the handshake (R1)
    // R4: an exchange that completed normally keeps the connection; the next call reuses it without reconnecting
    for w in tr.calls.windows(2) {
        let (a, b) = (&w[0], &w[1]);
        if matches!(a.result, CallResult::Hang | CallResult::Panic(_)) {
            break;
        }
        let last_conn = tr.log.iter().filter(|e| e.call == a.index && matches!(e.dir, Dir::Rx | Dir::Tx)).last().map(|e| e.conn);
        let Some(k) = last_conn else { continue };
        let faulted = tr.log.iter().any(|e| e.conn == k && matches!(e.dir, Dir::Fault(_)));
        // the last exchange of call a must have run to its end on k: the last event on k in call a is an acknowledged reply
        let last_ev = tr.log.iter().filter(|e| e.call == a.index && e.conn == k).last();
        let completed = matches!(last_ev.map(|e| &e.dir), Some(Dir::Rx)) && last_ev.map(|e| e.bytes == ACK).unwrap_or(false);
        if faulted || !completed {
            continue;
        }
        let first_b = tr.log.iter().find(|e| e.call == b.index && matches!(e.dir, Dir::Rx | Dir::Open | Dir::ConnectRefused | Dir::ConnectStalled));
        if let Some(e) = first_b {
            if e.conn != k || e.dir != Dir::Rx {
                return Some(("R4: a connection whose last exchange completed normally is not reused by the next call".into(), format!("call {} ended on connection {k}; call {} starts with {:?} on connection {}", a.index, b.index, e.dir, e.conn)));
            }
        }
    }
    None
}

fn fault_kinds_for(point: &TxPoint) -> Vec<FaultKind> {
    let mut v = vec![FaultKind::Close, FaultKind::Garbage, FaultKind::Nack, FaultKind::Foreign, FaultKind::Silence];
    if point.reply_idx > 0 {
        v.push(FaultKind::CloseAfter);
    }
    if point.cmd == Cmd::SystemInfo && point.reply_idx == 1 {
        v.push(FaultKind::WrongSerial);
        v.push(FaultKind::EmptyCompletion);
    }
    if point.cmd == Cmd::Registration && point.reply_idx == 1 {
        v.push(FaultKind::AbortReply);
    }
    // every well-formed packet of the list that is outside this exchange's reply set at this point
    for i in 0..UNEXPECTED.len() as u8 {
        v.push(FaultKind::Unexpected(i));
    }
    v
}

fn run_and_judge(r: &mut Report, id: &str, sc: &Scenario, idx: usize, schema: &Arc<refcodec::layout::Schema>, label: &str, hashed: bool) -> Trace {
    let tr = run_scenario(sc, schema);
    if let Ok(pat) = std::env::var("VERIF_DEBUG_LABEL") {
        if label.contains(&pat) {
            eprintln!("DEBUG {label}\n{}", serde_json::to_string_pretty(&case_json(sc, &tr)).unwrap_or_default());
        }
    }
    if hashed {
        r.case(fnv(format!("{:?}|{:?}|{:?}|{label}", sc.cfg, sc.plan.faults, sc.calls).as_bytes()), true);
    } else {
        r.case_enumerated(true);
    }
    // self-check of the fault injection: every scheduled kind is expected to fire somewhere (see the end of `run`)
    let kind_name = |k: &FaultKind| -> String { format!("{k:?}").split('(').next().unwrap_or("?").to_string() };
    for f in &sc.plan.faults {
        r.count(&format!("scheduled.{}", kind_name(&f.kind)), 1);
    }
    for e in &tr.log {
        match &e.dir {
            Dir::Fault(k) => r.count(&format!("fired.{}", kind_name(k)), 1),
            Dir::ConnectRefused => r.count("fired.Refuse", 1),
            Dir::ConnectStalled => r.count("fired.ConnectStall", 1),
            Dir::Note(n) if n.starts_with("pause") => r.count("fired.Pause", 1),
            _ => {}
        }
    }
    r.count("connections_opened", tr.log.iter().filter(|e| e.dir == Dir::Open).count() as u64);
    r.count("virtual_seconds", tr.calls.iter().map(|c| c.virtual_ms).sum::<u64>() / 1000);
    let case = || {
        let mut c = case_json(sc, &tr);
        c["label"] = json!(label);
        c["call_under_test"] = json!(idx);
        c
    };
    if r.wants_sample() && !sc.plan.faults.is_empty() {
        let per_conn: Vec<String> = {
            let mut m: BTreeMap<usize, Vec<String>> = BTreeMap::new();
            for e in tr.log.iter().filter(|e| e.call == idx) {
                let what = match &e.dir {
                    Dir::Rx => format!("rx {}", refcodec::hex(&e.bytes[..e.bytes.len().min(3)])),
                    Dir::Tx => format!("tx {}", refcodec::hex(&e.bytes[..e.bytes.len().min(3)])),
                    other => format!("{other:?}"),
                };
                m.entry(e.conn).or_default().push(format!("{}ms {what}", e.t_ms));
            }
            m.into_iter().map(|(k, v)| format!("conn {k}: {}", v.join(", "))).collect()
        };
        r.sample(json!({"scenario": label, "results": tr.calls.iter().map(|c| format!("call {} {} -> {} after {} virtual ms", c.index, c.call.as_ref().map(|x| x.name()).unwrap_or("new"), c.result.short(), c.virtual_ms)).collect::<Vec<_>>(), "connection_log_of_the_call_under_test": per_conn}));
    }
    if id == "C09" {
        if let Some((rule, what)) = check_connections(sc, &tr) {
            r.violation(&format!("C09 {rule}"), &format!("{label}: {what}"), case());
        }
        // small delays are not faults: handled by the caller (expects success)
    } else {
        for c in &tr.calls {
            let opname = c.call.as_ref().map(|x| x.name()).unwrap_or("new");
            match &c.result {
                CallResult::Hang => {
                    let stalled_where = tr.log.iter().filter(|e| e.call == c.index).last().map(|e| format!("{:?} on connection {}", e.dir, e.conn)).unwrap_or_default();
                    r.violation(
                        &format!("C10 {opname}: does not return within one virtual day"),
                        &format!("{label}: call {} had not returned after one virtual day; last terminal-side event: {stalled_where}", c.index),
                        case(),
                    );
                    break;
                }
                CallResult::Panic(p) => {
                    r.violation(&format!("C10 {opname}: {}", panic_sig(p)), &format!("{label}: call {} panicked: {p}", c.index), case());
                    break;
                }
                _ => {}
            }
        }
    }
    tr
}

pub fn run(ctx: &Ctx, id: &str) -> i32 {
    let mut report = ctx.report(id, "fault_enumeration");
    let schema = Arc::new(refcodec::zvt_schema());
    let threads = ctx.threads;
    let seed = ctx.seed;
    let quick = ctx.quick();
    report.exhaustive = Some(true);
    if id == "C09" {
        report.rule = "every public operation {new, configure, read_card, begin, commit, cancel, and begin / commit / cancel while another transaction is open} is first run fault-free to number its terminal->client packets (handshake, acks, intermediate packets, clean-up exchanges included); then re-run with one fault at every position x kind {close, a regular reply followed by an immediate close (the client notices while writing its acknowledgement), garbage, NACK, foreign control field, silence, wrong serial (reversed, a prefix of the configured one padded with NUL, blank, spaces, first character only, first / last character changed, halves swapped) / bare completion (system-info reply), a well-formed Abort where the reply set has none (registration reply), and each of 7 well-formed packets (abort, completion, intermediate status, status information, print line, set-time, acknowledgement) wherever it lies outside the exchange's reply set} and with refused connection attempts; all pairs of faults for the shorter operations and sampled pairs/triples otherwise; each followed by a further operation. Also: a terminal reporting the serial in the other letter case, and 1 ms..1 s delays between and inside packets (non-faults: the operation must succeed without reconnecting). Also the terminal closing the idle connection before the operation or before the follow-up operation (the next command write fails), alone and followed by a second fault. Oracle: connection checker R1-R6 (DESIGN D.4) over the per-connection event log; R6 = after the terminal closed a connection, the operations that follow make a new connection attempt. Non-trivial = every faulty run; single faults are a duplicate-free enumeration, multi-fault runs hashed.".into();
        report.assumptions = vec!["after injecting a fault the simulated terminal is passive on that connection, so every byte recorded there afterwards was written by the client".into(), "silence during the handshake is bounded by the fix of finding D6 (otherwise those runs end at the watchdog and are attributed to C10)".into()];
    } else {
        report.rule = "every public operation x (a) a one-shot silence at every terminal->client packet position (fault-free numbering), (b) a persistent silence at every distinct (exchange kind, packet) point incl. the handshake, (c) a connect that never resolves / always never resolves / is always refused, (d) pairs: a one-shot silence followed by a second silence / close / garbage / connect stall on the retried attempt, and silence on a slow terminal, (f) a garbage / NACK / foreign / unexpected-but-well-formed packet (or a regular reply followed by a close) at every position after which the terminal stays silent and never closes its side, (j) history independence: a persistently stalled read_card / configure takes no longer on an object that recovered from stalls in four earlier calls than on a fresh one, (i) a silence / close / garbage that creeps forward by 1-3 packets with every re-connection (each attempt gets further than the one before, none completes), (h) unsolicited bytes on the idle connection just before the operation (the first byte(s) of a packet and then nothing more with the connection kept open; a complete intermediate status), (g) the cached connection fails at once (idle close / close / NACK / garbage / reply-then-close) and every new connection is refused, stalls, or breaks at one point of its handshake (silence / close / garbage / NACK / wrong serial), (k) random plans: a random operation under a random configuration (read_card_timeout 0..255, password, currency, amount, transactions_max_num) with one to four faults of any stalling or connection-breaking kind at random packet positions / exchange points / connection attempts / on the idle connection / creeping, now and then on a slow terminal or one that splits its packets, (e) finite pauses of 1..61 s at every position and of 3..59 s inside the handshake of a re-connection for read_card_timeout in {0,5,15,30,56,57,58,200}; read_card_timeout 0..255 exhaustively with a terminal that stays silent for exactly its own read-card time-out and then answers 'abort 6C' 100 ms later (must be waited for: NoCardPresented); configuration extremes (password 0/999999, amount 0/10^12-1, transactions_max_num 0/usize::MAX, terminal id empty/non-numeric/8 digits, currency 0/9999). Time is tokio's paused clock. Oracle: every call returns before one virtual day and does not panic. Duplicate-free enumeration.".into();
        report.assumptions = vec!["watchdog = tokio::time::timeout of one virtual day around every public call; it can only fire when the client is parked without a timer of its own or its own timers exceed a day".into(), "only a collapsed (too short) read-card timeout is judged; the effective timeout is recorded".into()];
    }
    let base_cfg = ClientCfg { max_tx: 1, currency: 826, password: 471199, pre_amount: 3100, serial: "17fd1E3c".into(), ..ClientCfg::default() };

    // fault-free numbering of every operation
    let mut points: BTreeMap<Op, Vec<TxPoint>> = BTreeMap::new();
    for op in OPS {
        let (sc, idx) = skeleton(op, &base_cfg);
        let tr = run_scenario(&sc, &schema);
        let all_ok = tr.calls.iter().all(|c| c.result.is_ok());
        let conn_problem = check_connections(&sc, &tr);
        if let (Some((rule, what)), "C09") = (&conn_problem, id) {
            report.violation(&format!("C09 {rule} [fault-free]"), what, case_json(&sc, &tr));
        }
        if !all_ok && !(id == "C09" && conn_problem.is_some()) {
            report.inconclusive(&format!("fault-free run of {op:?} does not succeed: {:?}", tr.calls.iter().map(|c| c.result.short()).collect::<Vec<_>>()));
        }
        let pts: Vec<TxPoint> = tr.tx_points.iter().filter(|p| p.call == idx).cloned().collect();
        report.extra.insert(format!("positions.{op:?}"), json!(pts.len()));
        points.insert(op, pts);
    }
    if !report.inconclusive.is_empty() || !report.violations.is_empty() {
        return report.finish();
    }
    let jobs: Vec<(Op, usize)> = OPS.iter().flat_map(|op| (0..points[op].len()).map(move |p| (*op, p))).collect();
    sharded(&mut report, threads, |shard, r| {
        let mut rng = Rng::derive(seed, 0xC09 + shard as u64);
        if id == "C09" {
            // single faults, exhaustively
            for (j, (op, p)) in jobs.iter().enumerate() {
                if j % threads != shard {
                    continue;
                }
                let pt = &points[op][*p];
                for kind in fault_kinds_for(pt) {
                    let (mut sc, idx) = skeleton(*op, &base_cfg);
                    sc.plan.faults.push(FaultSpec { call: idx, at: At::Tx(*p), kind });
                    let label = format!("{op:?}: {kind:?} at packet {p} ({:?} reply {})", pt.cmd, pt.reply_idx);
                    run_and_judge(r, id, &sc, idx, &schema, &label, false);
                    if kind == FaultKind::WrongSerial {
                        // other serials that resemble the configured one: a prefix of it, blank, one character off, ...
                        for variant in 1..8u8 {
                            let mut sc = sc.clone();
                            sc.plan.wrong_serial_variant = variant;
                            run_and_judge(r, id, &sc, idx, &schema, &format!("{label}, other serial variant {variant}"), false);
                            r.count("wrong_serial_variants", 1);
                        }
                    }
                    r.note("fault_kinds_seen", &format!("{kind:?}"));
                    r.count("single_fault_runs", 1);
                    // second fault on the retry: every kind at a few positions of the retried attempt
                    let np = points[op].len();
                    let second_positions: Vec<usize> = if quick { vec![*p + 1, *p + 3, *p + 5, *p + 6] } else { (*p + 1..=*p + np + 6).collect() };
                    let kinds2: Vec<FaultKind> = if quick { vec![FaultKind::Close, FaultKind::Nack, FaultKind::WrongSerial, FaultKind::Silence, FaultKind::AbortReply, FaultKind::EmptyCompletion] } else { vec![FaultKind::Close, FaultKind::Nack, FaultKind::WrongSerial, FaultKind::Silence, FaultKind::Garbage, FaultKind::Foreign, FaultKind::AbortReply, FaultKind::EmptyCompletion] };
                    for p2 in second_positions {
                        for kind2 in kinds2.clone() {
                            let (mut sc, idx) = skeleton(*op, &base_cfg);
                            sc.plan.faults.push(FaultSpec { call: idx, at: At::Tx(*p), kind });
                            // WrongSerial only makes sense at the system-info reply of the re-connection: use the point form
                            // faults that only make sense at one handshake packet of the re-connection use the point form (first time only)
                            let at2 = match kind2 {
                                FaultKind::WrongSerial | FaultKind::EmptyCompletion => At::PointOnce(Cmd::SystemInfo, 1),
                                FaultKind::AbortReply => At::PointOnce(Cmd::Registration, 1),
                                _ => At::Tx(p2),
                            };
                            if matches!(kind2, FaultKind::WrongSerial | FaultKind::EmptyCompletion | FaultKind::AbortReply) && p2 != *p + 1 {
                                continue;
                            }
                            sc.plan.faults.push(FaultSpec { call: idx, at: at2, kind: kind2 });
                            let label = format!("{op:?}: {kind:?} at packet {p}, then {kind2:?}");
                            run_and_judge(r, id, &sc, idx, &schema, &label, true);
                            r.count("double_fault_runs", 1);
                        }
                    }
                }
                // refused connection attempts interleaved
                let (mut sc, idx) = skeleton(*op, &base_cfg);
                sc.plan.faults.push(FaultSpec { call: idx, at: At::Tx(*p), kind: FaultKind::Close });
                sc.plan.faults.push(FaultSpec { call: idx, at: At::Connect(if *op == Op::New { 1 } else { 0 }), kind: FaultKind::Refuse });
                run_and_judge(r, id, &sc, idx, &schema, &format!("{op:?}: Close at packet {p}, next connect refused"), true);
            }
            // the terminal closes the idle connection before the operation (and before the follow-up operation)
            if shard == 0 {
                for op in OPS {
                    let (sc0, idx) = skeleton(op, &base_cfg);
                    for at_call in [idx, idx + 1] {
                        if at_call == 1 || at_call > sc0.calls.len() + 1 {
                            continue;
                        }
                        let mut sc0 = sc0.clone();
                        // one more operation at the end, so that something follows the call that met the closed connection
                        sc0.calls.push(Call::ReadCard);
                        let mut sc = sc0.clone();
                        sc.plan.faults.push(FaultSpec { call: at_call, at: At::Idle, kind: FaultKind::IdleClose });
                        let label = format!("{op:?}: the terminal closes the idle connection before call {at_call}");
                        run_and_judge(r, id, &sc, idx, &schema, &label, false);
                        r.note("fault_kinds_seen", "IdleClose");
                        r.count("idle_close_runs", 1);
                        // ... and a second fault on the re-connection
                        for kind2 in [FaultKind::Close, FaultKind::Nack, FaultKind::CloseAfter] {
                            for p2 in 0..6 {
                                let mut sc = sc0.clone();
                                sc.plan.faults.push(FaultSpec { call: at_call, at: At::Idle, kind: FaultKind::IdleClose });
                                sc.plan.faults.push(FaultSpec { call: at_call, at: At::Tx(p2), kind: kind2 });
                                run_and_judge(r, id, &sc, idx, &schema, &format!("{op:?}: idle close before call {at_call}, then {kind2:?} at packet {p2}"), true);
                                r.count("idle_close_runs", 1);
                            }
                        }
                    }
                }
            }
            // non-faults: delays and the serial in the other letter case must not cause abandonment
            if shard == 0 {
                for op in OPS {
                    for (delay, split, flip) in [(1u64, None, false), (1000, None, false), (0, Some(1u64), false), (250, Some(1000), false), (0, None, true), (999, Some(999), true)] {
                        let (mut sc, idx) = skeleton(op, &base_cfg);
                        sc.plan.delay_ms = delay;
                        sc.plan.split_delay_ms = split;
                        sc.plan.flip_serial_case = flip;
                        let label = format!("{op:?}: no fault, delay {delay} ms, split {split:?}, serial case flipped {flip}");
                        let tr = run_and_judge(r, id, &sc, idx, &schema, &label, true);
                        let opened = tr.log.iter().filter(|e| e.dir == Dir::Open).count();
                        let ok = tr.calls.iter().all(|c| c.result.is_ok());
                        if !ok || opened != 1 {
                            r.violation(
                                &format!("C09: a healthy terminal is abandoned ({})", if flip { "serial reported in the other letter case" } else { "small delays between / inside packets" }),
                                &format!("{label}: {} connections opened, results {:?}", opened, tr.calls.iter().map(|c| c.result.short()).collect::<Vec<_>>()),
                                case_json(&sc, &tr),
                            );
                        }
                        r.count("non_fault_runs", 1);
                    }
                }
            }
            // a terminal that pauses (1 s, 10 s: below every per-packet timeout) before one packet and then carries on
            // is healthy: the operation succeeds on the one connection
            for (j, (op, p)) in jobs.iter().enumerate() {
                if j % threads != shard {
                    continue;
                }
                for secs in [1u32, 10] {
                    let (mut sc, idx) = skeleton(*op, &base_cfg);
                    sc.plan.faults.push(FaultSpec { call: idx, at: At::Tx(*p), kind: FaultKind::Pause(secs) });
                    let label = format!("{op:?}: no fault, the terminal pauses {secs} s before packet {p}");
                    let tr = run_and_judge(r, id, &sc, idx, &schema, &label, true);
                    let opened = tr.log.iter().filter(|e| e.dir == Dir::Open).count();
                    if !tr.calls.iter().all(|c| c.result.is_ok()) || opened != 1 {
                        r.violation("C09: a healthy terminal is abandoned (a pause shorter than every timeout)", &format!("{label}: {} connections opened, results {:?}", opened, tr.calls.iter().map(|c| c.result.short()).collect::<Vec<_>>()), case_json(&sc, &tr));
                    }
                    r.count("non_fault_runs", 1);
                }
            }
            // a talkative but healthy terminal: 300 intermediate statuses / print lines inside the operation's main exchange
            if shard == 3 % threads {
                for op in OPS {
                    let cmds: Vec<Cmd> = match op {
                        Op::New | Op::Configure => vec![Cmd::Initialization, Cmd::EndOfDay],
                        Op::ReadCard => vec![Cmd::ReadCard],
                        Op::Begin | Op::BeginOtherOpen => vec![Cmd::Reservation],
                        Op::Commit | Op::CommitOtherOpen => vec![Cmd::PartialReversal, Cmd::EndOfDay],
                        Op::Cancel | Op::CancelOtherOpen => vec![Cmd::PreAuthReversal, Cmd::EndOfDay],
                    };
                    for cmd in cmds {
                        let (mut sc, idx) = skeleton(op, &base_cfg);
                        let pre: Vec<Pre> = (0..300).map(|i| if cmd == Cmd::ReadCard || cmd == Cmd::Reservation || i % 3 != 0 { Pre::Intermediate { status: (i % 200) as u8, timeout: 0 } } else { Pre::PrintLine(format!("Zeile {i}")) }).collect();
                        sc.plan.ex.remove(&(idx, cmd));
                        sc.plan.push(idx, cmd, ExPlan { pre, ..ExPlan::default() });
                        let label = format!("{op:?}: no fault, 300 intermediate packets inside the {cmd:?} exchange");
                        let tr = run_and_judge(r, id, &sc, idx, &schema, &label, true);
                        let opened = tr.log.iter().filter(|e| e.dir == Dir::Open).count();
                        if !tr.calls.iter().all(|c| c.result.is_ok()) || opened != 1 {
                            r.violation("C09: a healthy terminal is abandoned (many intermediate packets inside an exchange)", &format!("{label}: {} connections opened, results {:?}", opened, tr.calls.iter().map(|c| c.result.short()).collect::<Vec<_>>()), case_json(&sc, &tr));
                        }
                        r.count("non_fault_runs", 1);
                    }
                }
            }
            // the registration completion carries its optional fields (status byte with 'initialisation necessary' and other
            // bits set): not a fault; and together with a wrong serial: still no command before the identity check
            if shard == 2 % threads {
                for op in OPS {
                    for sb in [0x00u8, 0x01, 0x02, 0x80, 0xff] {
                        let (mut sc, idx) = skeleton(op, &base_cfg);
                        sc.plan.registration_status_byte = Some(sb);
                        run_and_judge(r, id, &sc, idx, &schema, &format!("{op:?}: no fault, registration completion with status byte {sb:02x}"), true);
                        let (mut sc, idx) = skeleton(op, &base_cfg);
                        sc.plan.registration_status_byte = Some(sb);
                        if op != Op::New {
                            sc.plan.faults.push(FaultSpec { call: idx, at: At::Tx(0), kind: FaultKind::Close });
                        }
                        sc.plan.faults.push(FaultSpec { call: idx, at: At::PointOnce(Cmd::SystemInfo, 1), kind: FaultKind::WrongSerial });
                        run_and_judge(r, id, &sc, idx, &schema, &format!("{op:?}: registration completion with status byte {sb:02x}, then a wrong serial"), true);
                        r.count("registration_status_byte_runs", 2);
                    }
                }
            }
            // a slow but healthy terminal: *every* packet of the operation arrives W/6 / 0.4 W after the previous one, W being
            // the time the client is observed to wait for a packet (10 s / 24 s with the 60 s of the pinned tree): inside
            // that wait, also for an acknowledgement and a first reply together; the operation as a whole takes minutes:
            // success on the one connection
            if shard == 1 % threads {
                // (a client that never gives a silent connection up has no per-packet wait to stay inside: 60 s then)
                let w_ms = measured_packet_wait_ms(&schema).unwrap_or(60_000);
                r.note("measured_per_packet_wait_ms", &format!("{w_ms:07}"));
                for op in OPS {
                    // not `new`: its packets are the handshake's, which the client bounds as a whole (60 s), so a
                    // handshake of 4 x 25 s is a time-out by the client's own definition, not a healthy exchange
                    if op == Op::New {
                        continue;
                    }
                    for secs in [(w_ms / 6000).max(1) as u32, (w_ms * 2 / 5000).max(1) as u32] {
                        let (mut sc, idx) = skeleton(op, &base_cfg);
                        if op == Op::ReadCard {
                            sc.cfg.read_card_timeout = 60; // the card wait is this exchange's per-packet wait
                        }
                        for p in 0..points[&op].len() {
                            sc.plan.faults.push(FaultSpec { call: idx, at: At::Tx(p), kind: FaultKind::Pause(secs) });
                        }
                        let label = format!("{op:?}: no fault, every packet arrives {secs} s after the previous one");
                        let tr = run_and_judge(r, id, &sc, idx, &schema, &label, true);
                        let opened = tr.log.iter().filter(|e| e.dir == Dir::Open).count();
                        if !tr.calls.iter().all(|c| c.result.is_ok()) || opened != 1 {
                            r.violation("C09: a healthy terminal is abandoned (every packet arrives within the per-packet wait, the exchange as a whole takes longer)", &format!("{label}: {} connections opened, results {:?}", opened, tr.calls.iter().map(|c| c.result.short()).collect::<Vec<_>>()), case_json(&sc, &tr));
                        }
                        r.count("non_fault_runs", 1);
                    }
                }
            }
            // random triples
            let n_triples = if quick { 3_000 } else { 1_000_000 };
            for _ in 0..n_triples / threads {
                let op = *rng.pick(&OPS);
                let np = points[&op].len();
                let (mut sc, idx) = skeleton(op, &base_cfg);
                let nf = 2 + rng.below(2);
                for _ in 0..nf {
                    let kind = *rng.pick(&[FaultKind::Close, FaultKind::Garbage, FaultKind::Nack, FaultKind::Foreign, FaultKind::Silence, FaultKind::Refuse, FaultKind::WrongSerial]);
                    let at = match kind {
                        FaultKind::Refuse => At::Connect(rng.below(4) as usize),
                        FaultKind::WrongSerial => At::Point(Cmd::SystemInfo, 1),
                        _ => At::Tx(rng.below(np as u64 + 12) as usize),
                    };
                    // a persistent wrong serial would (correctly) never let the operation through; keep it one-shot by limiting to few attempts is not possible with a point fault, so only use it together with a call that may fail
                    sc.plan.faults.push(FaultSpec { call: idx, at, kind });
                }
                run_and_judge(r, id, &sc, idx, &schema, &format!("{op:?}: random faults {:?}", sc.plan.faults), true);
                r.count("multi_fault_runs", 1);
            }
        } else {
            // (a) one-shot silence at every position
            for (j, (op, p)) in jobs.iter().enumerate() {
                if j % threads != shard {
                    continue;
                }
                let pt = &points[op][*p];
                let (mut sc, idx) = skeleton(*op, &base_cfg);
                sc.plan.faults.push(FaultSpec { call: idx, at: At::Tx(*p), kind: FaultKind::Silence });
                let tr = run_and_judge(r, id, &sc, idx, &schema, &format!("{op:?}: one-shot silence at packet {p} ({:?} reply {})", pt.cmd, pt.reply_idx), false);
                r.note("stall_points_seen", &format!("{:?}/{}", pt.cmd, pt.reply_idx));
                let ms = tr.calls.iter().find(|c| c.index == idx).map(|c| c.virtual_ms).unwrap_or(0);
                r.note("virtual_seconds_of_a_one_shot_stall", &format!("{:06}", ms / 1000));
                // (b) persistent silence at the same logical point
                let (mut sc, idx) = skeleton(*op, &base_cfg);
                sc.plan.faults.push(FaultSpec { call: idx, at: At::Point(pt.cmd, pt.reply_idx), kind: FaultKind::Silence });
                let tr = run_and_judge(r, id, &sc, idx, &schema, &format!("{op:?}: persistent silence at {:?} reply {}", pt.cmd, pt.reply_idx), false);
                let ms = tr.calls.iter().find(|c| c.index == idx).map(|c| c.virtual_ms).unwrap_or(0);
                r.note("virtual_seconds_of_a_persistent_stall", &format!("{:06}", ms / 1000));
            }
            // (c) connect stalls
            if shard == 0 {
                for op in OPS {
                    for (at, kind) in [
                        (At::Connect(0), FaultKind::ConnectStall),
                        (At::AnyConnect, FaultKind::ConnectStall),
                        (At::AnyConnect, FaultKind::Refuse),
                        (At::Connect(0), FaultKind::Refuse),
                    ] {
                        // for operations other than `new` a connection exists already: break it first
                        let (mut sc, idx) = skeleton(op, &base_cfg);
                        if op != Op::New {
                            sc.plan.faults.push(FaultSpec { call: idx, at: At::Tx(0), kind: FaultKind::Close });
                        }
                        sc.plan.faults.push(FaultSpec { call: idx, at: at.clone(), kind });
                        run_and_judge(r, id, &sc, idx, &schema, &format!("{op:?}: {kind:?} at {at:?}"), false);
                        r.count("connect_stall_runs", 1);
                    }
                }
            }
            // read_card_timeout 0..255: a terminal silent for exactly rc seconds, answering 100 ms later, must be waited for
            for rc in (0..=255u32).filter(|rc| *rc as usize % threads == shard) {
                let cfg = ClientCfg { read_card_timeout: rc as u8, ..base_cfg.clone() };
                let mut sc = Scenario { cfg: cfg.clone(), ..Scenario::default() };
                sc.calls = vec![Call::ReadCard];
                let a_little = measured_read_card_grace_ms(&schema) / 20; // 100 ms of the 2 s grace
                sc.plan.push(2, Cmd::ReadCard, ExPlan { result: ExResult::Abort(0x6c), silent_ms: rc as u64 * 1000 + a_little, ..ExPlan::default() });
                let tr = run_and_judge(r, id, &sc, 2, &schema, &format!("read_card with read_card_timeout {rc}: terminal answers 'abort 6C' after {rc} s + {a_little} ms"), false);
                r.count("read_card_timeouts_tried", 1);
                if let Some(ct) = tr.calls.get(1) {
                    let waited = matches!(&ct.result, CallResult::Err { class: ErrClass::NoCardPresented, .. });
                    if !waited && !matches!(ct.result, CallResult::Hang | CallResult::Panic(_)) {
                        r.violation(
                            "C10 read_card: the per-packet timeout collapses below the configured read-card time-out",
                            &format!("read_card_timeout {rc}: the terminal answered after {rc} s + {a_little} ms but the client did not wait for it: {} ({} ReadCard requests sent)", ct.result.short(), tr.requests.iter().filter(|q| q.cmd == Cmd::ReadCard).count()),
                            case_json(&sc, &tr),
                        );
                    }
                }
                // and a terminal that never answers: bounded
                let mut sc = Scenario { cfg, ..Scenario::default() };
                sc.calls = vec![Call::ReadCard];
                sc.plan.faults.push(FaultSpec { call: 2, at: At::Point(Cmd::ReadCard, 1), kind: FaultKind::Silence });
                let tr = run_and_judge(r, id, &sc, 2, &schema, &format!("read_card with read_card_timeout {rc}: terminal never answers"), false);
                if rc % 51 == 0 {
                    let ms = tr.calls.get(1).map(|c| c.virtual_ms).unwrap_or(0);
                    r.note("read_card_unanswered_virtual_seconds", &format!("rc={rc:03}:{}", ms / 1000));
                }
            }
            // (d) two stalls in one call: every pair (one-shot at p, one-shot at q > p of the retried attempt), and
            //     a one-shot stall followed by another fault kind on the retry
            for (j, (op, p)) in jobs.iter().enumerate() {
                if j % threads != shard {
                    continue;
                }
                let np = points[op].len();
                let qs: Vec<usize> = if quick { vec![*p + 1, *p + 2, *p + np] } else { (*p + 1..=*p + np + 4).collect() };
                for q in qs {
                    for kind2 in [FaultKind::Silence, FaultKind::Close, FaultKind::Garbage, FaultKind::ConnectStall] {
                        let (mut sc, idx) = skeleton(*op, &base_cfg);
                        sc.plan.faults.push(FaultSpec { call: idx, at: At::Tx(*p), kind: FaultKind::Silence });
                        let at2 = if kind2 == FaultKind::ConnectStall { At::Connect(if *op == Op::New { 1 } else { 0 }) } else { At::Tx(q) };
                        sc.plan.faults.push(FaultSpec { call: idx, at: at2, kind: kind2 });
                        run_and_judge(r, id, &sc, idx, &schema, &format!("{op:?}: silence at packet {p}, then {kind2:?} at {q}"), true);
                        r.count("double_stall_runs", 1);
                    }
                }
                // a stall while the terminal is also slow (delays are not faults)
                let (mut sc, idx) = skeleton(*op, &base_cfg);
                sc.plan.delay_ms = 900;
                sc.plan.split_delay_ms = Some(700);
                sc.plan.faults.push(FaultSpec { call: idx, at: At::Tx(*p), kind: FaultKind::Silence });
                run_and_judge(r, id, &sc, idx, &schema, &format!("{op:?}: slow terminal + silence at packet {p}"), true);
            }
            // (e) finite pauses (not faults): the terminal is silent for a while and then carries on — alone at every
            //     position, and inside the handshake of a re-connection after the link was lost, for several
            //     read-card time-outs (the per-packet timeout of read_card is the caller's, the handshake's is not)
            for (j, (op, p)) in jobs.iter().enumerate() {
                if j % threads != shard {
                    continue;
                }
                for secs in [1u32, 16, 30, 59, 61] {
                    let (mut sc, idx) = skeleton(*op, &base_cfg);
                    sc.plan.faults.push(FaultSpec { call: idx, at: At::Tx(*p), kind: FaultKind::Pause(secs) });
                    run_and_judge(r, id, &sc, idx, &schema, &format!("{op:?}: terminal pauses {secs} s before packet {p}, then carries on"), true);
                    r.count("pause_runs", 1);
                }
            }
            for (k, op) in OPS.iter().enumerate() {
                if k % threads != shard % threads {
                    continue;
                }
                for rc in [0u8, 5, 15, 30, 56, 57, 58, 200] {
                    for secs in [3u32, 8, 18, 33, 45, 59] {
                        for point in [(Cmd::Registration, 0usize), (Cmd::Registration, 1), (Cmd::SystemInfo, 0), (Cmd::SystemInfo, 1)] {
                            let cfg = ClientCfg { read_card_timeout: rc, ..base_cfg.clone() };
                            let (mut sc, idx) = skeleton(*op, &cfg);
                            if *op != Op::New {
                                sc.plan.faults.push(FaultSpec { call: idx, at: At::Tx(0), kind: FaultKind::Close });
                            }
                            sc.plan.faults.push(FaultSpec { call: idx, at: At::PointOnce(point.0, point.1), kind: FaultKind::Pause(secs) });
                            run_and_judge(r, id, &sc, idx, &schema, &format!("{op:?} (read_card_timeout {rc}): link lost, then the terminal pauses {secs} s at {:?} packet {} of the new handshake", point.0, point.1), true);
                            r.count("pause_in_rehandshake_runs", 1);
                        }
                    }
                }
            }
            // (f) a non-silent fault after which the terminal keeps the connection open and says nothing more
            //     (it neither answers nor closes, whatever the client does with its side)
            for (j, (op, p)) in jobs.iter().enumerate() {
                if j % threads != shard {
                    continue;
                }
                let pt = &points[op][*p];
                let mut kinds = vec![FaultKind::Garbage, FaultKind::Nack, FaultKind::Foreign, FaultKind::CloseAfter];
                for i in 0..UNEXPECTED.len() as u8 {
                    kinds.push(FaultKind::Unexpected(i));
                }
                for kind in kinds {
                    let (mut sc, idx) = skeleton(*op, &base_cfg);
                    sc.plan.faults.push(FaultSpec { call: idx, at: At::Tx(*p), kind });
                    run_and_judge(r, id, &sc, idx, &schema, &format!("{op:?}: {kind:?} at packet {p} ({:?} reply {}), then the terminal stays silent with the connection open", pt.cmd, pt.reply_idx), false);
                    r.count("fault_then_silence_runs", 1);
                    // the same at the same logical point of every attempt
                    let (mut sc, idx) = skeleton(*op, &base_cfg);
                    sc.plan.faults.push(FaultSpec { call: idx, at: At::Point(pt.cmd, pt.reply_idx), kind });
                    run_and_judge(r, id, &sc, idx, &schema, &format!("{op:?}: {kind:?} at every {:?} reply {}, then silence with the connection open", pt.cmd, pt.reply_idx), true);
                    r.count("fault_then_silence_runs", 1);
                }
            }
            // (i) a stall that creeps forward: on every new connection the terminal gets `step` packets further than on the
            //     one before and then falls silent (each attempt "makes progress", none completes)
            for (k, op) in OPS.iter().enumerate() {
                if k % threads != shard % threads {
                    continue;
                }
                for step in [1usize, 2, 3] {
                    for offset in [0usize, 1, 2, 4] {
                        for kind in [FaultKind::Silence, FaultKind::Close, FaultKind::Garbage] {
                            let (mut sc, idx) = skeleton(*op, &base_cfg);
                            sc.plan.faults.push(FaultSpec { call: idx, at: At::Creeping { offset, step }, kind });
                            run_and_judge(r, id, &sc, idx, &schema, &format!("{op:?}: {kind:?} creeping forward by {step} packet(s) per connection, starting at packet {offset}"), false);
                            r.count("creeping_fault_runs", 1);
                        }
                    }
                }
            }
            // (i') the same, counted in replies of the operation's own exchange: the a-th re-sent exchange gets `step` replies
            //      further than the one before and then stalls (the exchange has 40 intermediate packets to creep through)
            for (k, op) in OPS.iter().enumerate() {
                if k % threads != shard % threads {
                    continue;
                }
                let cmd = match op {
                    Op::New | Op::Configure => Cmd::Initialization,
                    Op::ReadCard => Cmd::ReadCard,
                    Op::Begin | Op::BeginOtherOpen => Cmd::Reservation,
                    Op::Commit | Op::CommitOtherOpen => Cmd::PartialReversal,
                    Op::Cancel | Op::CancelOtherOpen => Cmd::PreAuthReversal,
                };
                for step in [1usize, 2] {
                    for offset in [1usize, 2] {
                        for kind in [FaultKind::Silence, FaultKind::Close] {
                            // the exchange is long enough (1600 intermediate packets, the same on every re-send) for the
                            // stall to creep for more than a virtual day of 60 s time-outs
                            let mut cfg = base_cfg.clone();
                            cfg.read_card_timeout = 60;
                            let (mut sc, idx) = skeleton(*op, &cfg);
                            sc.plan.ex.remove(&(idx, cmd));
                            sc.plan.sticky_last_plan = true;
                            sc.plan.push(idx, cmd, ExPlan { pre: (0..1600 * step).map(|i| Pre::Intermediate { status: (i % 250) as u8, timeout: 0 }).collect(), ..ExPlan::default() });
                            sc.plan.faults.push(FaultSpec { call: idx, at: At::CreepingIn { cmd, offset, step }, kind });
                            run_and_judge(r, id, &sc, idx, &schema, &format!("{op:?}: {kind:?} creeping forward by {step} repl(ies) per re-sent {cmd:?} exchange, starting at reply {offset}"), false);
                            r.count("creeping_fault_runs", 1);
                        }
                    }
                }
            }
            // (h) the terminal says something unsolicited on the idle connection just before the operation (the beginning
            //     of a packet and then nothing more; a complete packet) - alone, and with a silence on the re-connection
            for (k, op) in OPS.iter().enumerate() {
                if k % threads != shard % threads || *op == Op::New {
                    continue;
                }
                for v in 0..4u8 {
                    for at_call_offset in [0usize, 1] {
                        let (mut sc, idx) = skeleton(*op, &base_cfg);
                        sc.plan.faults.push(FaultSpec { call: idx + at_call_offset, at: At::Idle, kind: FaultKind::IdleBytes(v) });
                        run_and_judge(r, id, &sc, idx, &schema, &format!("{op:?}: unsolicited bytes (variant {v}) on the idle connection before call {}", idx + at_call_offset), false);
                        r.count("unsolicited_idle_bytes_runs", 1);
                        for point in [(Cmd::Registration, 1usize), (Cmd::SystemInfo, 1)] {
                            let (mut sc, idx) = skeleton(*op, &base_cfg);
                            sc.plan.faults.push(FaultSpec { call: idx + at_call_offset, at: At::Idle, kind: FaultKind::IdleBytes(v) });
                            sc.plan.faults.push(FaultSpec { call: idx + at_call_offset, at: At::PointOnce(point.0, point.1), kind: FaultKind::Silence });
                            run_and_judge(r, id, &sc, idx, &schema, &format!("{op:?}: unsolicited bytes (variant {v}) before call {}, then silence at {:?} packet {} of the new handshake", idx + at_call_offset, point.0, point.1), false);
                            r.count("unsolicited_idle_bytes_runs", 1);
                        }
                    }
                }
            }
            // (g) the operation starts on the cached connection, which fails at once (closed while idle / closed, NACK or
            //     garbage in place of the first acknowledgement); from then on the terminal is persistently broken at one
            //     point of every new handshake, or refuses / stalls every connection attempt
            for (k, op) in OPS.iter().enumerate() {
                if k % threads != shard % threads || *op == Op::New {
                    continue;
                }
                for first in [FaultKind::IdleClose, FaultKind::Close, FaultKind::Nack, FaultKind::Garbage, FaultKind::CloseAfter] {
                    let mut thens: Vec<(At, FaultKind)> = vec![(At::AnyConnect, FaultKind::Refuse), (At::AnyConnect, FaultKind::ConnectStall)];
                    for point in [(Cmd::Registration, 0usize), (Cmd::Registration, 1), (Cmd::SystemInfo, 0), (Cmd::SystemInfo, 1)] {
                        for kind in [FaultKind::Silence, FaultKind::Close, FaultKind::Garbage, FaultKind::Nack] {
                            thens.push((At::Point(point.0, point.1), kind));
                        }
                        thens.push((At::Point(Cmd::SystemInfo, 1), FaultKind::WrongSerial));
                    }
                    for (at, kind) in thens {
                        let (mut sc, idx) = skeleton(*op, &base_cfg);
                        match first {
                            FaultKind::IdleClose => sc.plan.faults.push(FaultSpec { call: idx, at: At::Idle, kind: first }),
                            FaultKind::CloseAfter => sc.plan.faults.push(FaultSpec { call: idx, at: At::Tx(1), kind: first }),
                            _ => sc.plan.faults.push(FaultSpec { call: idx, at: At::Tx(0), kind: first }),
                        }
                        sc.plan.faults.push(FaultSpec { call: idx, at: at.clone(), kind });
                        run_and_judge(r, id, &sc, idx, &schema, &format!("{op:?}: {first:?} on the cached connection, then {kind:?} at {at:?} of every new connection"), false);
                        r.count("cached_connection_lost_then_broken_terminal_runs", 1);
                    }
                }
            }
            // (j) the bound does not depend on what the object went through before: a call under a persistent stall takes as
            //     long on an object that has recovered from stalls / slow answers in four earlier calls as on a fresh one
            if shard == 4 % threads {
                for (call_kind, cmd) in [(Call::ReadCard, Cmd::ReadCard), (Call::Configure, Cmd::Initialization)] {
                    for rc in [0u8, 15] {
                        let cfg = ClientCfg { read_card_timeout: rc, ..base_cfg.clone() };
                        let stall_time = |history: usize| -> (u64, Scenario, Trace) {
                            let mut sc = Scenario { cfg: cfg.clone(), ..Scenario::default() };
                            sc.sim_serial = cfg.serial.clone();
                            sc.sim_terminal_id = cfg.terminal_id.clone();
                            for k in 0..history {
                                sc.calls.push(call_kind.clone());
                                // recovered stalls: one silence, then a late but proper answer
                                sc.plan.faults.push(FaultSpec { call: 2 + k, at: At::PointOnce(cmd, 1), kind: FaultKind::Silence });
                                if cmd == Cmd::ReadCard {
                                    sc.plan.push(2 + k, cmd, ExPlan::default());
                                    sc.plan.push(2 + k, cmd, ExPlan { result: ExResult::Abort(0x6c), silent_ms: rc as u64 * 1000 + 1500, ..ExPlan::default() });
                                }
                            }
                            sc.calls.push(call_kind.clone());
                            sc.plan.faults.push(FaultSpec { call: 2 + history, at: At::Point(cmd, 1), kind: FaultKind::Silence });
                            let tr = run_scenario(&sc, &schema);
                            let ms = tr.calls.iter().find(|c| c.index == 2 + history).map(|c| c.virtual_ms).unwrap_or(u64::MAX);
                            (ms, sc, tr)
                        };
                        let (fresh, _, _) = stall_time(0);
                        let (seasoned, sc, tr) = stall_time(4);
                        r.case_enumerated(true);
                        r.count("history_independence_runs", 1);
                        r.note("stalled_call_seconds_fresh_vs_seasoned", &format!("{:?} rc={rc}: {} vs {}", cmd, fresh / 1000, seasoned / 1000));
                        if matches!(tr.calls.last().map(|c| &c.result), Some(CallResult::Hang)) || seasoned > fresh + fresh / 4 + 5_000 {
                            r.violation(
                                &format!("C10 {}: the time a stalled call takes grows with the object's history", if cmd == Cmd::ReadCard { "read_card" } else { "configure" }),
                                &format!("read_card_timeout {rc}: under a persistent stall the call takes {} s on a fresh object and {} s after four earlier calls that recovered from a stall", fresh / 1000, seasoned / 1000),
                                case_json(&sc, &tr),
                            );
                        }
                    }
                }
            }
            // (k) random plans: a random operation under a random configuration with one to four faults of any stalling or
            //     connection-breaking kind at random places (packet positions, exchange points, connection attempts, the idle
            //     connection, creeping), now and then on a slow terminal or one that splits its packets
            {
                let n_random = if quick { 2_400 } else { 2_000_000 };
                let mut rng = Rng::derive(seed, 0xC10_4A4D + shard as u64);
                let cmds = [Cmd::Registration, Cmd::SystemInfo, Cmd::SetTerminalId, Cmd::Initialization, Cmd::Reservation, Cmd::PartialReversal, Cmd::PendingQuery, Cmd::PreAuthReversal, Cmd::EndOfDay, Cmd::ReadCard];
                for _ in 0..n_random / threads {
                    let op = *rng.pick(&OPS);
                    let cfg = ClientCfg {
                        read_card_timeout: match rng.below(4) {
                            0 => *rng.pick(&[0u8, 1, 253, 254, 255]),
                            _ => rng.byte(),
                        },
                        password: rng.below(1_000_000) as usize,
                        currency: rng.below(10_000) as usize,
                        pre_amount: *rng.pick(&[0usize, 1, 2500, 999_999_999_999]),
                        ..base_cfg.clone()
                    };
                    let (mut sc, idx) = skeleton(op, &cfg);
                    if rng.chance(1, 6) {
                        sc.cfg.max_tx = *rng.pick(&[0usize, 1, 2, 3, 255, 65536, usize::MAX]);
                    }
                    let n_faults = 1 + rng.below(4) as usize;
                    for _ in 0..n_faults {
                        let kind = match rng.below(14) {
                            0 | 1 | 2 => FaultKind::Silence,
                            3 => FaultKind::Close,
                            4 => FaultKind::Garbage,
                            5 => FaultKind::Nack,
                            6 => FaultKind::Foreign,
                            7 => FaultKind::WrongSerial,
                            8 => FaultKind::Pause(1 + rng.below(70) as u32),
                            9 => FaultKind::CloseAfter,
                            10 => FaultKind::Unexpected(rng.below(UNEXPECTED.len() as u64) as u8),
                            11 => FaultKind::AbortReply,
                            12 => FaultKind::EmptyCompletion,
                            _ => FaultKind::Silence,
                        };
                        let spec = match rng.below(10) {
                            0 | 1 | 2 => FaultSpec { call: idx, at: At::Tx(rng.below(24) as usize), kind },
                            3 | 4 => FaultSpec { call: idx, at: At::Point(*rng.pick(&cmds), rng.below(4) as usize), kind },
                            5 => FaultSpec { call: idx, at: At::PointOnce(*rng.pick(&cmds), rng.below(4) as usize), kind },
                            6 => FaultSpec { call: idx, at: if rng.chance(1, 3) { At::AnyConnect } else { At::Connect(rng.below(5) as usize) }, kind: if rng.chance(1, 2) { FaultKind::ConnectStall } else { FaultKind::Refuse } },
                            7 if op != Op::New => FaultSpec { call: idx, at: At::Idle, kind: if rng.chance(1, 2) { FaultKind::IdleClose } else { FaultKind::IdleBytes(rng.below(4) as u8) } },
                            8 => FaultSpec { call: idx, at: At::Creeping { offset: rng.below(4) as usize, step: rng.below(4) as usize }, kind },
                            _ => FaultSpec { call: idx, at: At::CreepingIn { cmd: *rng.pick(&cmds), offset: rng.below(3) as usize, step: rng.below(3) as usize }, kind },
                        };
                        sc.plan.faults.push(spec);
                    }
                    if rng.chance(1, 6) {
                        sc.plan.delay_ms = rng.below(3_000);
                    }
                    if rng.chance(1, 8) {
                        sc.plan.split_delay_ms = Some(rng.below(2_000));
                    }
                    sc.plan.wrong_serial_variant = rng.below(8) as u8;
                    let label = format!("random plan: {op:?}, {:?}", sc.plan.faults.iter().map(|f| format!("{:?}@{:?}", f.kind, f.at)).collect::<Vec<_>>());
                    run_and_judge(r, id, &sc, idx, &schema, &label, true);
                    r.count("random_plan_runs", 1);
                }
            }
            // configuration extremes
            if shard == 1 % threads {
                let extremes: Vec<ClientCfg> = vec![
                    ClientCfg { password: 0, ..base_cfg.clone() },
                    ClientCfg { password: 999_999, ..base_cfg.clone() },
                    ClientCfg { pre_amount: 0, ..base_cfg.clone() },
                    ClientCfg { pre_amount: 999_999_999_999, ..base_cfg.clone() },
                    ClientCfg { max_tx: 0, ..base_cfg.clone() },
                    ClientCfg { max_tx: usize::MAX, ..base_cfg.clone() },
                    ClientCfg { terminal_id: "".into(), ..base_cfg.clone() },
                    ClientCfg { terminal_id: "abc".into(), ..base_cfg.clone() },
                    ClientCfg { terminal_id: "99999999".into(), ..base_cfg.clone() },
                    ClientCfg { terminal_id: "00000000".into(), ..base_cfg.clone() },
                    ClientCfg { currency: 0, ..base_cfg.clone() },
                    ClientCfg { currency: 9999, ..base_cfg.clone() },
                    ClientCfg { read_card_timeout: 0, ..base_cfg.clone() },
                    ClientCfg { read_card_timeout: 255, ..base_cfg.clone() },
                ];
                for cfg in extremes {
                    for op in OPS {
                        let (mut sc, idx) = skeleton(op, &cfg);
                        run_and_judge(r, id, &sc, idx, &schema, &format!("{op:?} with configuration {cfg:?}, no fault"), true);
                        let stall_positions: Vec<usize> = if quick { vec![1, 3] } else { (0..points[&op].len()).collect() };
                        for sp in stall_positions {
                            let (mut sc, idx) = skeleton(op, &cfg);
                            sc.plan.faults.push(FaultSpec { call: idx, at: At::Tx(sp), kind: FaultKind::Silence });
                            run_and_judge(r, id, &sc, idx, &schema, &format!("{op:?} with configuration {cfg:?}, silence at packet {sp}"), true);
                            r.count("configuration_extreme_runs", 1);
                        }
                        r.count("configuration_extreme_runs", 1);
                    }
                }
            }
        }
    });
    // a fault kind that was scheduled in many runs but never once fired means the injection itself is broken
    let scheduled: Vec<(String, u64)> = report.counters.iter().filter(|(k, _)| k.starts_with("scheduled.")).map(|(k, v)| (k["scheduled.".len()..].to_string(), *v)).collect();
    for (kind, n) in scheduled {
        if n >= 20 && report.counters.get(&format!("fired.{kind}")).copied().unwrap_or(0) == 0 {
            report.inconclusive(&format!("fault kind {kind} was scheduled in {n} runs but never fired: the fault injection is not effective"));
        }
    }
    // summarise the per-shard notes
    for k in ["virtual_seconds_of_a_one_shot_stall", "virtual_seconds_of_a_persistent_stall"] {
        if let Some(s) = report.sets.remove(k) {
            let max = s.iter().max().cloned().unwrap_or_default();
            let min = s.iter().min().cloned().unwrap_or_default();
            report.extra.insert(format!("{k}_min_max"), json!([min.trim_start_matches('0'), max.trim_start_matches('0')]));
        }
    }
    crate::also_in_release_build(&mut report, id, ctx);
    report.finish()
}
