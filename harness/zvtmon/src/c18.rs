//! C18 — card identity is a fixed function of the data the terminal reports.

use crate::client::*;
use crate::sim::*;
use crate::Ctx;
use refcodec::evidence::{sharded, Report};
use refcodec::prng::{fnv, Rng};
use serde_json::json;
use std::sync::Arc;

/// Canonical membership id of a UID given as hex digits (any case).
fn canon(uid: &str) -> String {
    let mut u = uid.to_uppercase();
    if u.len() > 14 {
        u = u[u.len() - 14..].to_string();
        if let Some(rest) = u.strip_prefix("000000") {
            u = rest.to_string();
        }
    }
    u
}

#[derive(Debug, PartialEq)]
enum Accept {
    Bank,
    Membership(String),
    Error,
}

/// What the statement allows for this card (three-valued where it is silent).
fn reference(card: &CardData) -> Vec<Accept> {
    if card.no_tlv {
        return vec![Accept::Error];
    }
    let any_aid = card.subs.iter().any(|s| s.1.is_some());
    if let Some(first) = card.subs.first() {
        if first.1.is_some() {
            return vec![Accept::Bank];
        }
        // list non-empty, first entry without application id: the statement is silent on the exact outcome
        let mut a = vec![Accept::Error];
        if any_aid {
            a.push(Accept::Bank);
        } else if let Some(u) = &card.uid {
            a.push(Accept::Membership(canon(u)));
        }
        return a;
    }
    match &card.uid {
        Some(u) => vec![Accept::Membership(canon(u))],
        None => vec![Accept::Error],
    }
}

fn gen_uid(rng: &mut Rng) -> Option<String> {
    if rng.chance(1, 8) {
        return None;
    }
    let n = rng.below(21) as usize;
    let bytes: Vec<u8> = match rng.below(6) {
        0 => vec![0u8; n],
        1 => {
            // zero-prefixed
            let z = rng.below(n as u64 + 1) as usize;
            (0..n).map(|i| if i < z { 0 } else { rng.byte() }).collect()
        }
        2 => {
            // exactly three zero bytes in front of the last 14 digits
            let mut b = rng.bytes(n);
            if n >= 7 {
                for x in b.iter_mut().skip(n - 7).take(3) {
                    *x = 0;
                }
            }
            b
        }
        3 => (0..n).map(|_| *rng.pick(&[0x00u8, 0x0a, 0xa0, 0xff, 0xab, 0x10])).collect(),
        _ => rng.bytes(n),
    };
    Some(refcodec::hex(&bytes))
}

fn gen_subs(rng: &mut Rng) -> Vec<(Option<String>, Option<String>)> {
    let n = match rng.below(12) {
        0..=5 => 0,
        6 | 7 => 1,
        // long lists: the reply grows beyond the one-byte APDU length
        8 => 14 + rng.below(30) as usize,
        _ => 1 + rng.below(4) as usize,
    };
    (0..n)
        .map(|_| {
            let alen = 5 + rng.below(3) as usize;
            let aid = if rng.chance(2, 3) { Some(refcodec::hex(&rng.bytes(alen))) } else { None };
            let ct = if rng.chance(1, 3) { Some(refcodec::hex(&rng.bytes(1))) } else { None };
            (ct, aid)
        })
        .collect()
}

pub fn run(ctx: &Ctx) -> i32 {
    let mut report = ctx.report("C18", "exploration");
    report.rule = "read_card against the simulated terminal: systematically every UID length 0..20 x every number of leading zero bytes x zero runs in front of the last 7/8 bytes; UID shapes of real tag families (E0 04 / 04 / 88 04 / 08 heads, 04 E0 / E0 tails, lengths 4 / 7 / 8 / 10, zero-padded or not); randomly UID absent / 0..20 bytes (all zero, zero-prefixed, three zero bytes in front of the last 14 digits, nibble patterns, random), application list (tag 60) absent/empty/1-5 and 14-43 entries with and without application ids, systematically lists of 0..44 entries x 0..15 padding bytes (status informations of every length around the 254/255/256 APDU length switch and beyond), no TLV container at all, 0-5 (and 64 / 255 / 256 / 257 / 300 / 1000) intermediate statuses before the status information or the abort, all 256 abort codes; the terminal's own time-out (abort 6C, or a card at the last moment) arriving read_card_timeout seconds + 0.1/0.9/1.5 s after the request for read_card_timeout in {0,1,15,100,253,254,255}; in a quarter of the cases the link hiccups once during the first presentation (close / garbage / NACK / foreign or unexpected packet / reply followed by a close at a random packet; the re-sent request is answered properly); slow presentations (1-5 intermediate statuses and the card, each arriving read_card_timeout or read_card_timeout + 1 s after the previous packet, i.e. inside the per-packet wait but the whole exchange far beyond it); every card is presented twice in the same session, the second time with the irrelevant fields (track data, card type, ATS, SAK, tag-62 applications) changed; sequences of 3-5 different cards on one client, unreadable presentations (no card data, nothing to identify the card by) among them, each judged from its own status information. Oracle: reference classification of DESIGN 8/C18 (three-valued where the statement is silent); both presentations must give the same result. Non-trivial = every read; distinct by hash of the reported card data / abort code.".into();
    report.exhaustive = Some(false);
    report.assumptions = vec!["applications listed only under tag 62 are recorded, not judged (one of the repository's own captures is such a card)".into()];
    let schema = Arc::new(refcodec::zvt_schema());
    let n = ctx.by(8_000usize, 1_000_000usize);
    let threads = ctx.threads;
    let seed = ctx.seed;
    sharded(&mut report, threads, |shard, r| {
        let mut rng = Rng::derive(seed, 0xC18 + shard as u64);
        // all abort codes
        for c in (0..=255u8).filter(|c| *c as usize % threads == shard) {
            abort_case(r, &schema, c, (c % 4) as usize);
        }
        // systematic UIDs: every length 0..20 x every number of leading zero bytes x zero runs in front of the last
        // 7 / 8 bytes, with an empty application list
        let mut k = 0usize;
        for len in 0..=20usize {
            for z in 0..=len {
                for variant in 0..4 {
                    k += 1;
                    if k % threads != shard {
                        continue;
                    }
                    let mut b: Vec<u8> = (0..len).map(|i| if i < z { 0 } else { 0x11u8.wrapping_mul(i as u8 + 1) | 1 }).collect();
                    match variant {
                        1 if len >= 7 => {
                            for x in b.iter_mut().skip(len - 7).take(3) {
                                *x = 0;
                            }
                        }
                        2 if len >= 7 => {
                            for x in b.iter_mut().skip(len - 7).take(6) {
                                *x = 0;
                            }
                        }
                        3 if len >= 8 => {
                            for x in b.iter_mut().skip(len - 8).take(4) {
                                *x = 0;
                            }
                        }
                        0 => {}
                        _ => continue,
                    }
                    let card = CardData { uid: Some(refcodec::hex(&b)), ..CardData::default() };
                    fixed_card_case(r, &mut rng, &schema, card);
                }
            }
        }
        for _ in 0..n / threads {
            card_case(r, &mut rng, &schema);
        }
        // different cards one after the other on one client: every presentation is classified from its own status
        // information only (unreadable presentations - no card data at all, nothing to identify it by - in between)
        for _ in 0..n / threads / 3 {
            sequence_case(r, &mut rng, &schema);
        }
        // size classes: application lists of 0..44 entries x padding of 0..15 bytes in an irrelevant field, so that the
        // status information sweeps over every length around the 254/255/256 switch of the APDU length (and beyond)
        let mut k = 0usize;
        for entries in 0..=44usize {
            for pad in 0..=15usize {
                k += 1;
                if k % threads != shard {
                    continue;
                }
                for with_aid in [false, true] {
                    let subs: Vec<(Option<String>, Option<String>)> = (0..entries).map(|i| (Some(format!("{:02x}", i as u8)), if with_aid { Some(format!("a00000000{:01x}1010", i % 16)) } else { None })).collect();
                    let card = CardData { uid: Some("0000000004a1b2c3d4e5f6".into()), subs, ats: if pad > 0 { Some("5a".repeat(pad)) } else { None }, ..CardData::default() };
                    fixed_card_case(r, &mut rng, &schema, card);
                    r.count("size_class_cards", 1);
                }
            }
        }
        // UID shapes of real tag families (manufacturer / family codes at either end, cascade tag, random-ID marker), in every
        // usual length, zero-padded to 10 bytes or not
        {
            let heads: [&[u8]; 8] = [&[0xe0, 0x04], &[0xe0, 0x07], &[0x04], &[0x02], &[0x05], &[0x88, 0x04], &[0x08], &[0x00, 0x00, 0x00]];
            let tails: [&[u8]; 6] = [&[0x04, 0xe0], &[0x07, 0xe0], &[0x04], &[0x88], &[0x00], &[0xe0]];
            let mut k = 0usize;
            for len in [4usize, 7, 8, 10] {
                for pad in [false, true] {
                    for h in heads.iter().map(|h| Some(*h)).chain(std::iter::once(None)) {
                        for t in tails.iter().map(|t| Some(*t)).chain(std::iter::once(None)) {
                            k += 1;
                            if k % threads != shard {
                                continue;
                            }
                            let mut b: Vec<u8> = (0..len).map(|i| 0x11u8.wrapping_mul(i as u8 + 1) | 1).collect();
                            if let Some(h) = h {
                                let n = h.len().min(len);
                                b[..n].copy_from_slice(&h[..n]);
                            }
                            if let Some(t) = t {
                                let n = t.len().min(len);
                                b[len - n..].copy_from_slice(&t[t.len() - n..]);
                            }
                            if pad {
                                let mut p = vec![0u8; 10usize.saturating_sub(len)];
                                p.extend(&b);
                                b = p;
                            }
                            let card = CardData { uid: Some(refcodec::hex(&b)), ..CardData::default() };
                            fixed_card_case(r, &mut rng, &schema, card);
                            r.count("tag_family_uids", 1);
                        }
                    }
                }
            }
        }
        // many intermediate statuses before the card / the abort ("any number")
        for (k, n_inter) in [64usize, 255, 256, 257, 300, 1000].iter().enumerate() {
            if k % threads != shard % threads {
                continue;
            }
            for abort in [None, Some(0x6cu8), Some(0x64)] {
                let mut sc = Scenario::default();
                sc.calls = vec![Call::ReadCard];
                sc.plan.push(2, Cmd::ReadCard, ExPlan { pre: intermediates(*n_inter), card: Some(CardData { uid: Some("04a1b2c3d4e5f6".into()), ..CardData::default() }), result: abort.map(ExResult::Abort).unwrap_or(ExResult::Normal), ..ExPlan::default() });
                let tr = run_scenario(&sc, &schema);
                r.case(fnv(format!("many {n_inter} {abort:?}").as_bytes()), true);
                r.count("presentations_after_many_intermediate_statuses", 1);
                let got = tr.calls.get(1).map(|c| c.result.clone());
                let ok = match (&got, abort) {
                    (Some(CallResult::Ok(OkVal::Membership(m))), None) => m == "04A1B2C3D4E5F6",
                    (Some(CallResult::Err { class: ErrClass::NoCardPresented, .. }), Some(0x6c)) => true,
                    (Some(CallResult::Err { class, .. }), Some(c)) if c != 0x6c => *class != ErrClass::NoCardPresented,
                    _ => false,
                };
                if !ok {
                    r.violation("C18: the result after many intermediate statuses differs from the result after few", &format!("{n_inter} intermediate statuses, then {}: {}", abort.map(|c| format!("abort {c:02x}")).unwrap_or_else(|| "the card".into()), got.map(|g| g.short()).unwrap_or_default()), case_json(&sc, &tr));
                }
            }
        }
        let grace_ms = crate::faults::measured_read_card_grace_ms(&schema);
        r.note("measured_read_card_grace_ms", &format!("{grace_ms:06}"));
        // a slow presentation: intermediate statuses trickle in, each one (and finally the card) just inside the time the
        // client waits for a single packet (read_card_timeout + 2 s), the whole exchange far beyond it
        for (k, rc) in [0u8, 1, 15, 60].iter().enumerate() {
            if k % threads != shard % threads {
                continue;
            }
            for n_inter in 1..=5usize {
                for gap_ms_short in [false, true] {
                    let mut sc = Scenario::default();
                    sc.cfg.read_card_timeout = *rc;
                    sc.calls = vec![Call::ReadCard];
                    sc.plan.push(2, Cmd::ReadCard, ExPlan { pre: intermediates(n_inter), card: Some(CardData { uid: Some("04a1b2c3d4e5f6".into()), ..CardData::default() }), ..ExPlan::default() });
                    // half of the grace the client is observed to give beyond read_card_timeout (1 s of the 2 s)
                    let gap = if gap_ms_short { *rc as u32 } else { *rc as u32 + (grace_ms / 2000) as u32 };
                    if (gap.max(1) as u64) * 1000 >= *rc as u64 * 1000 + grace_ms {
                        continue; // would not be inside the per-packet wait
                    }
                    for p in 1..=n_inter + 1 {
                        sc.plan.faults.push(FaultSpec { call: 2, at: At::Tx(p), kind: FaultKind::Pause(gap.max(1)) });
                    }
                    let tr = run_scenario(&sc, &schema);
                    r.case(fnv(format!("slow {rc} {n_inter} {gap}").as_bytes()), true);
                    r.count("slow_presentations", 1);
                    let got = tr.calls.get(1).map(|c| c.result.clone());
                    if !matches!(&got, Some(CallResult::Ok(OkVal::Membership(m))) if m == "04A1B2C3D4E5F6") {
                        r.violation(
                            "C18: a card presented after slowly arriving intermediate statuses is not reported",
                            &format!("read_card_timeout {rc}: {n_inter} intermediate statuses and the card, each {} s after the previous packet (the client waits {} ms for a packet): {} ({} ReadCard requests)", gap.max(1), *rc as u64 * 1000 + grace_ms, got.map(|g| g.short()).unwrap_or_default(), tr.requests.iter().filter(|q| q.cmd == Cmd::ReadCard).count()),
                            case_json(&sc, &tr),
                        );
                    }
                }
            }
        }
        // the terminal's own read-card time-out: it stays silent for read_card_timeout seconds (plus a little, still
        // inside the client's grace) and then reports 'abort 6C' or, for a card presented at the last moment, the card
        for (k, rc) in [0u8, 1, 15, 100, 253, 254, 255].iter().enumerate() {
            if k % threads != shard % threads {
                continue;
            }
            for extra_ms in [grace_ms / 20, grace_ms * 9 / 20, grace_ms * 3 / 4] {
                for late_card in [false, true] {
                    let mut sc = Scenario::default();
                    sc.cfg.read_card_timeout = *rc;
                    sc.calls = vec![Call::ReadCard];
                    let silent_ms = *rc as u64 * 1000 + extra_ms;
                    let plan = if late_card {
                        ExPlan { card: Some(CardData { uid: Some("04a1b2c3d4e5f6".into()), ..CardData::default() }), silent_ms, ..ExPlan::default() }
                    } else {
                        ExPlan { result: ExResult::Abort(0x6c), silent_ms, ..ExPlan::default() }
                    };
                    sc.plan.push(2, Cmd::ReadCard, plan);
                    let tr = run_scenario(&sc, &schema);
                    r.case(fnv(format!("late {rc} {extra_ms} {late_card}").as_bytes()), true);
                    r.count("late_replies_within_the_grace_period", 1);
                    let got = tr.calls.get(1).map(|c| c.result.clone());
                    let ok = match (&got, late_card) {
                        (Some(CallResult::Err { class: ErrClass::NoCardPresented, .. }), false) => true,
                        (Some(CallResult::Ok(OkVal::Membership(m))), true) => m == "04A1B2C3D4E5F6",
                        _ => false,
                    };
                    if !ok {
                        r.violation(
                            &if late_card { "C18: a card presented at the last moment is not reported".to_string() } else { "C18: terminal time-out (6C) is not reported as 'no card presented'".to_string() },
                            &format!("read_card_timeout {rc}: the terminal answered {silent_ms} ms after the request ({}): {}", if late_card { "status information" } else { "abort 6C" }, got.map(|g| g.short()).unwrap_or_default()),
                            case_json(&sc, &tr),
                        );
                    }
                }
            }
        }
    });
    crate::also_in_release_build(&mut report, "C18", ctx);
    report.finish()
}

fn intermediates(n: usize) -> Vec<Pre> {
    (0..n).map(|i| Pre::Intermediate { status: [0x17u8, 0x0a, 0xff, 0x41, 0x0b][i % 5], timeout: ((i % 80) as u8) * 3 }).collect()
}

fn abort_case(r: &mut Report, schema: &Arc<refcodec::layout::Schema>, code: u8, n_inter: usize) {
    let mut sc = Scenario::default();
    sc.calls = vec![Call::ReadCard];
    sc.plan.push(2, Cmd::ReadCard, ExPlan { pre: intermediates(n_inter), result: ExResult::Abort(code), ..ExPlan::default() });
    let tr = run_scenario(&sc, schema);
    r.case(fnv(&[0xab, code, n_inter as u8]), true);
    let Some(ct) = tr.calls.get(1) else {
        r.inconclusive("read_card was not executed");
        return;
    };
    let ok = match (&ct.result, code) {
        (CallResult::Err { class: ErrClass::NoCardPresented, .. }, 0x6c) => true,
        (CallResult::Err { class, .. }, c) if c != 0x6c => *class != ErrClass::NoCardPresented,
        _ => false,
    };
    r.count("abort_codes_tried", 1);
    if !ok {
        r.violation(
            &if code == 0x6c { "C18: terminal time-out (6C) is not reported as 'no card presented'".to_string() } else { "C18: an abort other than the time-out is not reported as a (different) error".to_string() },
            &format!("abort code {code:02x} after {n_inter} intermediate statuses: {}", ct.result.short()),
            case_json(&sc, &tr),
        );
    }
}

fn card_case(r: &mut Report, rng: &mut Rng, schema: &Arc<refcodec::layout::Schema>) {
    let card = random_card(rng);
    fixed_card_case(r, rng, schema, card);
}

fn sequence_case(r: &mut Report, rng: &mut Rng, schema: &Arc<refcodec::layout::Schema>) {
    let n = 3 + rng.below(3) as usize;
    let cards: Vec<CardData> = (0..n)
        .map(|_| {
            let mut c = random_card(rng);
            match rng.below(5) {
                0 => c.no_tlv = true,
                1 => {
                    c.uid = None;
                    c.subs = vec![];
                }
                _ => {}
            }
            c
        })
        .collect();
    let mut sc = Scenario::default();
    sc.calls = cards.iter().map(|_| Call::ReadCard).collect();
    for (i, c) in cards.iter().enumerate() {
        sc.plan.push(2 + i, Cmd::ReadCard, ExPlan { pre: intermediates(rng.below(3) as usize), card: Some(c.clone()), ..ExPlan::default() });
    }
    let tr = run_scenario(&sc, schema);
    r.count("sequences_of_different_cards", 1);
    for (i, card) in cards.iter().enumerate() {
        r.case(fnv(format!("seq {i} {card:?}").as_bytes()), true);
        let accepted = reference(card);
        let Some(ct) = tr.calls.get(1 + i) else {
            r.inconclusive("read_card was not executed");
            return;
        };
        let got = match &ct.result {
            CallResult::Ok(OkVal::Bank) => Accept::Bank,
            CallResult::Ok(OkVal::Membership(s)) => Accept::Membership(s.clone()),
            CallResult::Err { class: ErrClass::NoCardPresented, .. } => Accept::Membership("<no card presented>".into()),
            CallResult::Err { .. } => Accept::Error,
            other => Accept::Membership(format!("<{}>", other.short())),
        };
        if accepted.contains(&Accept::Error) {
            r.count("unreadable_presentations_in_a_sequence", 1);
        }
        if !accepted.contains(&got) {
            let mut c = case_json(&sc, &tr);
            c["cards"] = json!(cards.iter().map(|c| format!("{c:?}")).collect::<Vec<_>>());
            c["presentation"] = json!(i);
            c["accepted_results"] = json!(format!("{accepted:?}"));
            r.violation("C18: a presentation in a sequence of different cards is not classified from its own status information", &format!("presentation {i} of {n}: uid {:?}, application list {:?}, card data present: {}: got {got:?}, accepted {accepted:?}", card.uid, card.subs, !card.no_tlv), c);
            return;
        }
    }
}

fn random_card(rng: &mut Rng) -> CardData {
    CardData {
        no_tlv: rng.chance(1, 25),
        uid: gen_uid(rng),
        subs: gen_subs(rng),
        subs_on_card: if rng.chance(1, 5) { Some(gen_subs(rng)) } else { None },
        card_type: if rng.chance(1, 2) { Some(rng.byte()) } else { None },
        ats: if rng.chance(1, 2) { Some(refcodec::hex(&rng.bytes(5))) } else { None },
        sak: if rng.chance(1, 2) { Some(rng.byte()) } else { None },
        track_2: if rng.chance(1, 4) { Some(refcodec::hex(&rng.bytes(12))) } else { None },
        status: if rng.chance(1, 4) { Some(StatusFields { amount: Some(rng.below(1_000_000)), trace_number: Some(rng.below(1_000_000)), date: Some(1231), time: Some(rng.below(240000) / 100 * 100), terminal_id: Some(rng.below(100_000_000)), currency: Some(978), card_name: if rng.chance(1, 2) { Some("girocard".into()) } else { None }, result_code: None }) } else { None },
        receipt: if rng.chance(1, 4) { Some(rng.below(10000)) } else { None },
        max_pre_auth: if rng.chance(1, 4) { Some(rng.below(100_000)) } else { None },
    }
}

fn fixed_card_case(r: &mut Report, rng: &mut Rng, schema: &Arc<refcodec::layout::Schema>, card: CardData) {
    // second presentation: same identity-relevant data, other irrelevant fields
    let second = CardData {
        card_type: Some(rng.byte()),
        ats: if card.ats.is_some() { None } else { Some("0578807002".into()) },
        sak: Some(rng.byte()),
        track_2: Some(refcodec::hex(&rng.bytes(8))),
        subs_on_card: card.subs_on_card.clone(),
        status: if card.status.is_some() { None } else { Some(StatusFields { amount: Some(rng.below(5000)), trace_number: Some(7), ..StatusFields::default() }) },
        receipt: if card.receipt.is_some() { None } else { Some(1 + rng.below(9000)) },
        max_pre_auth: if card.max_pre_auth.is_some() { None } else { Some(rng.below(7000)) },
        ..card.clone()
    };
    let n1 = rng.below(6) as usize;
    let n2 = rng.below(6) as usize;
    let mut sc = Scenario::default();
    sc.calls = vec![Call::ReadCard, Call::ReadCard];
    sc.plan.push(2, Cmd::ReadCard, ExPlan { pre: intermediates(n1), card: Some(card.clone()), ..ExPlan::default() });
    sc.plan.push(3, Cmd::ReadCard, ExPlan { pre: intermediates(n2), card: Some(second), ..ExPlan::default() });
    // now and then the link hiccups once during the first presentation (the client re-sends the request and the
    // terminal answers it properly): the classification is that of the status information all the same
    if rng.chance(1, 4) {
        let ui = rng.below(UNEXPECTED.len() as u64) as u8;
        let kind = *rng.pick(&[FaultKind::Close, FaultKind::Garbage, FaultKind::Nack, FaultKind::Foreign, FaultKind::CloseAfter, FaultKind::Unexpected(ui)]);
        let p = rng.below(n1 as u64 + 2) as usize;
        sc.plan.faults.push(FaultSpec { call: 2, at: At::Tx(p), kind });
        for _ in 0..2 {
            sc.plan.push(2, Cmd::ReadCard, ExPlan { pre: intermediates(n1), card: Some(card.clone()), ..ExPlan::default() });
        }
        r.count("presentations_with_a_link_hiccup", 1);
    }
    let tr = run_scenario(&sc, schema);
    r.case(fnv(format!("{card:?}").as_bytes()), true);
    let accepted = reference(&card);
    let case = || {
        let mut c = case_json(&sc, &tr);
        c["card"] = json!(format!("{card:?}"));
        c["accepted_results"] = json!(format!("{accepted:?}"));
        c
    };
    let mut results = vec![];
    for idx in [1usize, 2] {
        let Some(ct) = tr.calls.get(idx) else {
            r.inconclusive("read_card was not executed");
            return;
        };
        let got = match &ct.result {
            CallResult::Ok(OkVal::Bank) => Accept::Bank,
            CallResult::Ok(OkVal::Membership(s)) => Accept::Membership(s.clone()),
            CallResult::Err { class: ErrClass::NoCardPresented, .. } => {
                r.violation("C18: a presented card is reported as 'no card presented'", &ct.result.short(), case());
                return;
            }
            CallResult::Err { .. } => Accept::Error,
            CallResult::Panic(p) => {
                r.violation(&format!("C18 read_card: {}", panic_sig(p)), p, case());
                return;
            }
            other => {
                r.violation("C18 read_card: unexpected result", &other.short(), case());
                return;
            }
        };
        if !accepted.contains(&got) {
            let sig = match (&got, accepted.first()) {
                (Accept::Membership(_), Some(Accept::Bank)) => "a card with a listed payment application is reported as a membership card",
                (Accept::Membership(_), Some(Accept::Membership(_))) => "membership id is not the canonical form of the UID",
                (Accept::Bank, _) => "a card without a listed payment application is reported as a bank card",
                (Accept::Error, _) => "a classifiable card is rejected",
                _ => "card classification differs from the reference function",
            };
            r.violation(&format!("C18: {sig}"), &format!("uid {:?}, application list {:?}: got {got:?}, accepted {accepted:?}", card.uid, card.subs), case());
            return;
        }
        results.push(got);
    }
    if results.len() == 2 && results[0] != results[1] {
        r.violation("C18: two presentations of the same card give different results", &format!("{:?} vs {:?}", results[0], results[1]), case());
        return;
    }
    match results.first() {
        Some(Accept::Bank) => r.count("classified_bank", 1),
        Some(Accept::Membership(_)) => {
            r.count("classified_membership", 1);
            if card.subs_on_card.as_ref().map(|l| l.iter().any(|s| s.1.is_some())).unwrap_or(false) {
                r.count("observation_tag62_only_cards_reported_as_membership", 1);
            }
            if card.uid.as_ref().map(|u| u.len() > 14).unwrap_or(false) {
                r.count("membership_uid_longer_than_14_digits", 1);
            }
        }
        _ => r.count("classified_error", 1),
    }
    if accepted.len() > 1 {
        r.count("cards_where_the_statement_is_silent", 1);
    }
    if r.wants_sample() && matches!(results.first(), Some(Accept::Membership(_))) {
        r.sample(json!({"uid": card.uid, "application_list": format!("{:?}", card.subs), "intermediate_statuses": n1, "result": format!("{:?}", results[0])}));
    }
}
