//! Construction of typed values from reference values (field *names* only —
//! no tags, lengths or encodings appear here), so that C01/C03 can be judged on
//! the caller's value itself and not only on values obtained from the decoder.

use refcodec::engine::{guarded, Built};
use refcodec::val::Val;
use std::fmt::Debug;
use zvt::feig::packets as fp;
use zvt::packets as p;
use zvt::{encoding, ZvtSerializer};

refcodec::fromval_prelude!();

fn build<T>(v: &Val) -> Option<Built>
where
    T: FromVal + ZvtSerializer + Debug + PartialEq,
    encoding::Default: encoding::Encoding<T>,
{
    let x = T::from_val(v)?;
    let enc = x.zvt_serialize();
    let _g = refcodec::runaway::begin("decode of its own serialisation", crate::sut::key_of::<T>(), &enc);
    let dec = match T::zvt_deserialize(&enc) {
        Ok((y, rest)) => Ok((y == x, rest.len(), format!("{y:?}"))),
        Err(e) => Err(format!("{e:?}")),
    };
    Some(Built { debug: format!("{x:?}"), enc, dec })
}

fn decode_eq<T>(bytes: &[u8], v: &Val) -> Option<bool>
where
    T: FromVal + ZvtSerializer + Debug + PartialEq,
    encoding::Default: encoding::Encoding<T>,
{
    let x = T::from_val(v)?;
    Some(matches!(T::zvt_deserialize(bytes), Ok((y, _)) if y == x))
}

macro_rules! shapes {
    ($($key:literal => $ty:ty { $($f:ident),* $(,)? }),* $(,)?) => {
        $(
            impl FromVal for $ty {
                #[allow(unused_variables)]
                fn from_val(v: &Val) -> Option<Self> {
                    let Val::Struct(_) = v else { return None };
                    type This = $ty;
                    Some(This { $($f: FromVal::from_val(v.field(stringify!($f))?)?),* })
                }
            }
            impl Elem for $ty {}
        )*
        pub fn build_raw(key: &str, v: &Val) -> Option<Built> {
            match key {
                $($key => build::<$ty>(v),)*
                _ => None,
            }
        }
        pub fn decode_eq_raw(key: &str, bytes: &[u8], v: &Val) -> Option<bool> {
            match key {
                $($key => decode_eq::<$ty>(bytes, v),)*
                _ => None,
            }
        }
    };
}

shapes! {
    "packets::SetTimeAndDate" => p::SetTimeAndDate { date, time },
    "packets::NumAndTotal" => p::NumAndTotal { num, total },
    "packets::SingleAmounts" => p::SingleAmounts { receipt_no_start, receipt_no_end, girocard, jcb, eurocard, amex, visa, diners, others },
    "packets::StatusInformation" => p::StatusInformation { amount, trace_number, time, date, expiry_date, card_sequence_number, card_type, card_number, track_2_data, result_code, terminal_id, vu_number, aid_authorization_attribute, additional_text, single_amounts, receipt_no, currency, zvt_card_type, card_name, zvt_card_type_id, tlv },
    "packets::IntermediateStatusInformation" => p::IntermediateStatusInformation { status, timeout },
    "packets::StatusEnquiry" => p::StatusEnquiry { password, service_byte, tlv },
    "packets::Registration" => p::Registration { password, config_byte, currency, tlv },
    "packets::CompletionData" => p::CompletionData { result_code, status_byte, terminal_id, currency },
    "packets::ReceiptPrintoutCompletion" => p::ReceiptPrintoutCompletion { sw_version, terminal_status_code, tlv },
    "packets::ResetTerminal" => p::ResetTerminal {},
    "packets::PrintSystemConfiguration" => p::PrintSystemConfiguration {},
    "packets::SetTerminalId" => p::SetTerminalId { password, terminal_id },
    "packets::Abort" => p::Abort { error },
    "packets::ReservationAbort" => p::ReservationAbort { error, currency, tlv },
    "packets::PartialReversalAbort" => p::PartialReversalAbort { error, receipt_no },
    "packets::Authorization" => p::Authorization { amount, currency, payment_type, expiry_date, card_number, track_2_data, timeout, maximum_no_of_status_info, pump_no, additional_text, zvt_card_type, tlv },
    "packets::Reservation" => p::Reservation { amount, currency, payment_type, expiry_date, card_number, track_2_data, timeout, maximum_no_of_status_info, pump_no, trace_number, aid_authorization_attribute, additional_text, zvt_card_type, tlv },
    "packets::PartialReversal" => p::PartialReversal { receipt_no, amount, payment_type, currency, tlv },
    "packets::PreAuthReversal" => p::PreAuthReversal { payment_type, currency, receipt_no },
    "packets::EndOfDay" => p::EndOfDay { password },
    "packets::Diagnosis" => p::Diagnosis { tlv },
    "packets::Initialization" => p::Initialization { password },
    "packets::ReadCard" => p::ReadCard { timeout_sec, card_type, dialog_control, tlv },
    "packets::PrintLine" => p::PrintLine { attribute, text },
    "packets::PrintTextBlock" => p::PrintTextBlock { tlv },
    "packets::Ack" => p::Ack {},
    "packets::tlv::Subs" => p::tlv::Subs { card_type, application_id },
    "packets::tlv::SubsOnCard" => p::tlv::SubsOnCard { subs },
    "packets::tlv::StatusInformation" => p::tlv::StatusInformation { uuid, maximum_pre_autorisation, card_identification_item, ats, card_type, sub_type, atqa, sak, subs, subs_on_card },
    "packets::tlv::DeviceInformation" => p::tlv::DeviceInformation { device_name, software_version, serial_number, device_state },
    "packets::tlv::ReceiptPrintoutCompletion" => p::tlv::ReceiptPrintoutCompletion { terminal_id, device_information, date_time },
    "packets::tlv::ReservationAbort" => p::tlv::ReservationAbort { extended_error_code, extended_error_text },
    "packets::tlv::Bmp60" => p::tlv::Bmp60 { bmp_prefix, bmp_data },
    "packets::tlv::AuthData" => p::tlv::AuthData { bmp_data },
    "packets::tlv::PreAuthData" => p::tlv::PreAuthData { bmp_data },
    "packets::tlv::Diagnosis" => p::tlv::Diagnosis { diagnosis_type },
    "packets::tlv::ReadCard" => p::tlv::ReadCard { card_reading_control, card_type },
    "packets::tlv::ZvtString" => p::tlv::ZvtString { line },
    "packets::tlv::TextLines" => p::tlv::TextLines { lines, eol },
    "packets::tlv::PrintTextBlock" => p::tlv::PrintTextBlock { receipt_type, lines },
    "packets::tlv::Registration" => p::tlv::Registration { max_len_adpu },
    "feig::packets::tlv::File" => fp::tlv::File { file_id, file_offset, file_size, payload },
    "feig::packets::tlv::WriteData" => fp::tlv::WriteData { file },
    "feig::packets::tlv::WriteFile" => fp::tlv::WriteFile { files },
    "feig::packets::tlv::HostConfigurationData" => fp::tlv::HostConfigurationData { ip, port, config_byte },
    "feig::packets::tlv::SystemInformation" => fp::tlv::SystemInformation { password, host_configuration_data },
    "feig::packets::tlv::ChangeConfiguration" => fp::tlv::ChangeConfiguration { system_information },
    "feig::packets::RequestForData" => fp::RequestForData { tlv },
    "feig::packets::CVendFunctionsEnhancedSystemInformationCompletion" => fp::CVendFunctionsEnhancedSystemInformationCompletion { device_id, sw_version, terminal_id, temperature },
    "feig::packets::WriteFile" => fp::WriteFile { password, tlv },
    "feig::packets::ChangeConfiguration" => fp::ChangeConfiguration { tlv },
    "feig::packets::CVendFunctions" => fp::CVendFunctions { password, instr },
    "feig::packets::WriteData" => fp::WriteData { tlv },
}

/// None: the type has private fields (SelectLanguage, tlv::StatusEnquiry) or the value does not fit the Rust types.
pub fn build_type(key: &str, v: &Val) -> Option<Result<Built, String>> {
    match guarded(|| build_raw(key, v)) {
        Ok(None) => None,
        Ok(Some(b)) => Some(Ok(b)),
        Err(p) => Some(Err(p)),
    }
}

/// Private field: cannot be constructed from outside the crate (values containing it fall back to the decoder bridge).
impl FromVal for p::tlv::StatusEnquiry {
    fn from_val(_: &Val) -> Option<Self> {
        None
    }
}

pub fn decode_eq_type(key: &str, bytes: &[u8], v: &Val) -> Option<bool> {
    guarded(|| decode_eq_raw(key, bytes, v)).ok().flatten()
}
