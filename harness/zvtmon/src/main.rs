//! zvtmon — runtime monitors for davisriedel/zvt.  One subcommand per property.
//!
//!   zvtmon <ID> [--tier quick|thorough] [--seed N] [--replay FILE]

#[cfg(feature = "typed")]
mod build;
#[cfg(not(feature = "typed"))]
mod build {
    //! fallback: no typed construction (decoder bridge only)
    use refcodec::engine::Built;
    use refcodec::val::Val;
    pub fn build_type(_key: &str, _v: &Val) -> Option<Result<Built, String>> {
        None
    }
    pub fn decode_eq_type(_key: &str, _bytes: &[u8], _v: &Val) -> Option<bool> {
        None
    }
}
mod c02;
mod c04;
mod c08;
mod c18;
mod c20;
mod faults;
mod history;
mod c11;
mod c12;
mod c15;
mod c16;
mod c17;
mod client;
mod codecprops;
mod script;
mod seq;
mod sim;
mod sut;

use refcodec::evidence::Report;

#[derive(Clone, Debug)]
pub struct Ctx {
    pub tier: String,
    pub seed: u64,
    pub threads: usize,
    pub replay: Option<String>,
    pub args: Vec<String>,
}

impl Ctx {
    pub fn quick(&self) -> bool {
        self.tier == "quick"
    }
    /// pick by tier
    pub fn by<T>(&self, quick: T, thorough: T) -> T {
        if self.quick() {
            quick
        } else {
            thorough
        }
    }
    pub fn report(&self, property: &str, level: &str) -> Report {
        Report::new(property, &self.tier, self.seed, level)
    }
}

pub use refcodec::evidence::sharded;

/// Run the same check in the plain release build (no overflow checks, no debug assertions) and absorb its report:
/// code whose behaviour depends on the build profile must satisfy the property in both.
pub fn also_in_release_build(report: &mut refcodec::evidence::Report, id: &str, ctx: &Ctx) {
    if std::env::var("VERIF_DUMP_JSON").is_ok() {
        return; // we are the child
    }
    let Some(bin) = std::env::var("VERIF_REL_BIN").ok().filter(|p| std::path::Path::new(p).exists()) else {
        report.inconclusive("release-profile binary not available (VERIF_REL_BIN): the release-build pass was not run");
        return;
    };
    let work = std::env::var("VERIF_WORK").unwrap_or_else(|_| "/verif/.build/main".into());
    let out = format!("{work}/rel-{id}-{}.json", std::process::id());
    let st = std::process::Command::new(&bin)
        .args([id, "--tier", &ctx.tier, "--seed", &ctx.seed.to_string()])
        .env("VERIF_DUMP_JSON", &out)
        .env("VERIF_NO_MIRI", "1")
        .stdout(std::process::Stdio::null())
        .stderr(std::process::Stdio::null())
        .status();
    match (st, std::fs::read_to_string(&out)) {
        (Ok(_), Ok(text)) => match serde_json::from_str::<serde_json::Value>(&text) {
            Ok(mut v) => {
                if let Some(arr) = v["violations"].as_array_mut() {
                    for x in arr.iter_mut() {
                        let sig = x["signature"].as_str().unwrap_or("").to_string();
                        x["signature"] = serde_json::json!(format!("[release build] {sig}"));
                    }
                }
                // the child's samples / rule are the same as ours: only counts and violations matter
                v["samples"] = serde_json::json!([]);
                report.absorb_json(&v);
                report.extra.insert("also_run_in_the_plain_release_build".into(), serde_json::json!(true));
            }
            Err(e) => report.inconclusive(&format!("release-build pass: unreadable result: {e}")),
        },
        (Ok(s), _) if s.code() == Some(refcodec::runaway::EXIT_RUNAWAY) => {
            // the release-build child ended itself as runaway: confirm with the release binary
            let work = std::env::var("VERIF_WORK").unwrap_or_else(|_| "/verif/.build/main".into());
            codecprops::confirm_runaway(report, id, &format!("{work}/runaway-{id}-rel.json"), &bin, "[release build] ");
        }
        (st, _) => report.inconclusive(&format!("release-build pass did not finish normally ({st:?})")),
    }
    let _ = std::fs::remove_file(&out);
}


fn main() {
    let argv: Vec<String> = std::env::args().collect();
    if argv.len() < 2 {
        eprintln!("usage: zvtmon <ID|subcommand> [--tier quick|thorough] [--seed N] [--replay FILE]");
        std::process::exit(2);
    }
    let mut ctx = Ctx {
        tier: std::env::var("VERIF_TIER").unwrap_or_else(|_| "quick".into()),
        seed: std::env::var("VERIF_SEED").ok().and_then(|s| s.trim().parse::<i64>().ok()).map(|v| v as u64).unwrap_or(0),
        threads: std::env::var("VERIF_THREADS").ok().and_then(|s| s.parse().ok()).unwrap_or(16),
        replay: None,
        args: vec![],
    };
    let mut i = 2;
    while i < argv.len() {
        match argv[i].as_str() {
            "--tier" => {
                ctx.tier = argv[i + 1].clone();
                i += 1;
            }
            "--seed" => {
                ctx.seed = argv[i + 1].parse::<i64>().expect("seed") as u64;
                i += 1;
            }
            "--threads" => {
                ctx.threads = argv[i + 1].parse().expect("threads");
                i += 1;
            }
            "--replay" => {
                ctx.replay = Some(argv[i + 1].clone());
                i += 1;
            }
            other => ctx.args.push(other.to_string()),
        }
        i += 1;
    }
    if ctx.tier != "quick" && ctx.tier != "thorough" {
        eprintln!("tier must be quick or thorough");
        std::process::exit(2);
    }
    sut::install_panic_hook();
    refcodec::engine::install_log_sink();
    if !matches!(argv[1].as_str(), "selfcheck" | "c02-digest-server" | "c02-one" | "miri-slice") && ctx.replay.is_none() {
        refcodec::evidence::silence_stdout();
    }
    // resource watchdog: the code under test may loop or allocate without end (that is what some of the properties are
    // about).  A check that neither finishes within its budget nor stays within the memory budget ends INCONCLUSIVE
    // (exit 2) instead of taking the machine down; the monitors that *judge* progress and allocation (C02, C10) have
    // their own, much tighter, oracles.
    if argv[1].starts_with('C') && ctx.replay.is_none() {
        let id = argv[1].clone();
        let budget_s: u64 = std::env::var("VERIF_WATCHDOG_S").ok().and_then(|s| s.parse().ok()).unwrap_or(if ctx.tier == "quick" { 1500 } else { 6 * 3600 });
        let mem_budget_kb: u64 = std::env::var("VERIF_MEM_BUDGET_KB").ok().and_then(|s| s.parse().ok()).unwrap_or(12 << 20);
        std::thread::spawn(move || {
            let start = std::time::Instant::now();
            loop {
                // (short period: sixteen threads that allocate without end fill the machine within seconds)
                std::thread::sleep(std::time::Duration::from_millis(100));
                let rss_kb = std::fs::read_to_string("/proc/self/statm").ok().and_then(|t| t.split_whitespace().nth(1).and_then(|p| p.parse::<u64>().ok())).map(|pages| pages * 4).unwrap_or(0);
                let why = if start.elapsed().as_secs() > budget_s {
                    Some(format!("the check did not finish within {budget_s} s (the code under test may be looping)"))
                } else if rss_kb > mem_budget_kb {
                    Some(format!("the check's memory grew beyond {} MiB (the code under test may be allocating or producing events without end)", mem_budget_kb >> 10))
                } else {
                    None
                };
                if let Some(why) = why {
                    refcodec::outln!("INCONCLUSIVE property={id} resource watchdog: {why}");
                    std::process::exit(2);
                }
            }
        });
    }
    let code = match argv[1].as_str() {
        "C01" | "C03" | "C13" | "C14" => codecprops::run(&ctx, &argv[1]),
        "C02" => c02::run(&ctx),
        "c02-digest-server" => c02::digest_server(),
        "c02-one" => c02::one(),
        "C04" => c04::run(&ctx),
        "C05" => seq::run_c05(&ctx),
        "C06" => seq::run_c06(&ctx),
        "C07" | "C08" | "C09" | "C10" | "C18" | "C19" | "C20" => client::run(&ctx, &argv[1]),
        "C11" => c11::run(&ctx),
        "C12" => c12::run(&ctx),
        "C15" => c15::run(&ctx),
        "C16" => c16::run(&ctx),
        "C17" => c17::run(&ctx),
        "selfcheck" => codecprops::selfcheck(&ctx),
        "decode-one" => codecprops::decode_one(&argv[2..]),
        "runaway-confirm" => codecprops::runaway_confirm(&ctx, &argv[2], &argv[3]),
        "miri-slice" => c02::miri_slice(&ctx),
        other => {
            eprintln!("unknown subcommand {other}");
            2
        }
    };
    std::process::exit(code);
}
