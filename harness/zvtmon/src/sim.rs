//! The simulated payment terminal (DESIGN §7): speaks ZVT through the
//! reference codec only, keeps a ledger of pre-authorisations, follows a plan
//! (outcomes, reported values, delays, faults addressed by packet position)
//! and records a per-connection event log with virtual timestamps.

use refcodec::codec::Codec;
use refcodec::layout::{Card, Enc, Schema, StructDef};
use refcodec::val::Val;
use std::collections::{BTreeMap, VecDeque};
use std::net::{Ipv4Addr, SocketAddrV4};
use std::sync::{Arc, Mutex};
use tokio::io::{AsyncReadExt, AsyncWriteExt, DuplexStream};
use zvt_feig_terminal::verif_hook::{ConnectFuture, Connector, VerifIo};

// ---------------------------------------------------------------- value helpers

/// A struct value with every optional field absent, lists empty, numbers 0, text "".
pub fn blank(schema: &Schema, def: &StructDef) -> Val {
    Val::Struct(
        def.fields
            .iter()
            .map(|f| {
                let v = match f.card {
                    Card::Opt => Val::none(),
                    Card::Many => Val::List(vec![]),
                    Card::One => match &f.enc {
                        Enc::Int { .. } | Enc::Bcd(_) | Enc::Rcpt => Val::Num(0),
                        Enc::Cp437 | Enc::Utf8 => Val::Text(String::new()),
                        Enc::Hex => Val::Hex(String::new()),
                        Enc::Bytes => Val::Bytes(vec![]),
                        Enc::DateTime => Val::DateTime([2000, 1, 1, 0, 0, 0]),
                        Enc::Struct(k) => blank(schema, schema.get(k)),
                    },
                };
                (f.name.clone(), v)
            })
            .collect(),
    )
}

/// Set `field` of a struct value; wraps in Some(..) when the field is optional.
pub fn set(schema: &Schema, def: &StructDef, v: &mut Val, field: &str, new: Val) {
    let f = def.fields.iter().find(|f| f.name == field).unwrap_or_else(|| panic!("sim: no field {field} in {}", def.key));
    let slot = v.field_mut(field).unwrap();
    *slot = match f.card {
        Card::Opt => Val::some(new),
        _ => new,
    };
    let _ = schema;
}

pub struct Enc0<'a> {
    pub schema: &'a Schema,
}

impl<'a> Enc0<'a> {
    pub fn make(&self, key: &str, fields: &[(&str, Val)]) -> Val {
        let def = self.schema.get(key);
        let mut v = blank(self.schema, def);
        for (n, x) in fields {
            set(self.schema, def, &mut v, n, x.clone());
        }
        v
    }
    pub fn bytes(&self, key: &str, v: &Val) -> Vec<u8> {
        Codec::new(self.schema).encode(self.schema.get(key), v).unwrap_or_else(|e| panic!("sim: cannot encode {key}: {e:?} {v:?}"))
    }
    pub fn packet(&self, key: &str, fields: &[(&str, Val)]) -> Vec<u8> {
        self.bytes(key, &self.make(key, fields))
    }
}

// ---------------------------------------------------------------- plan

#[derive(Clone, Debug, PartialEq)]
pub enum Pre {
    Intermediate { status: u8, timeout: u8 },
    PrintLine(String),
    PrintTextBlock,
    /// a status information without receipt number
    PlainStatus,
    /// a status information without receipt number whose result code (BMP 27) is this
    StatusWithResult(u8),
    /// a status information with these figures and this receipt number (None = no receipt field)
    FullStatus(StatusFields, Option<u64>),
    /// a status information carrying this receipt number
    ReceiptStatus(u64),
}

#[derive(Clone, Debug, PartialEq)]
pub enum ExResult {
    Normal,
    Abort(u8),
    /// abort carrying a receipt number (BMP 87): Some(r) = that number, None = the one of the request (echo)
    AbortWithReceipt(u8, Option<u64>),
    /// reservation: status information without a receipt number
    NoReceipt,
    /// no status information at all
    NoStatus,
}

/// Values the terminal reports in its status information.
#[derive(Clone, Debug, PartialEq, Default)]
pub struct StatusFields {
    pub amount: Option<u64>,
    pub trace_number: Option<u64>,
    pub date: Option<u64>,
    pub time: Option<u64>,
    pub terminal_id: Option<u64>,
    pub currency: Option<u64>,
    pub card_name: Option<String>,
    /// BMP 27 result code of the status information (None = 0, success)
    pub result_code: Option<u8>,
}

/// What a card looks like to the terminal (read-card status information).
#[derive(Clone, Debug, PartialEq, Default)]
pub struct CardData {
    /// no TLV container at all
    pub no_tlv: bool,
    /// UID as lower-case hex (what the terminal reports), None = absent
    pub uid: Option<String>,
    /// application list (tag 60 entries): (card_type hex, application_id hex)
    pub subs: Vec<(Option<String>, Option<String>)>,
    /// applications under tag 62
    pub subs_on_card: Option<Vec<(Option<String>, Option<String>)>>,
    pub card_type: Option<u8>,
    pub ats: Option<String>,
    pub sak: Option<u8>,
    pub track_2: Option<String>,
    /// the status information of the card also carries these (amount, trace number, ... as after a payment)
    pub status: Option<StatusFields>,
    /// ... and a receipt number (BMP 87)
    pub receipt: Option<u64>,
    /// TLV 1F0B: maximum pre-authorisation amount the card reports
    pub max_pre_auth: Option<u64>,
}

#[derive(Clone, Debug, PartialEq)]
pub struct ExPlan {
    pub pre: Vec<Pre>,
    pub result: ExResult,
    pub status: Option<StatusFields>,
    pub card: Option<CardData>,
    /// read-card: stay silent this many virtual milliseconds before the final packet
    pub silent_ms: u64,
    /// pending query: report this dangling receipt (None = ledger decides); Some(None) = omit the receipt field
    pub pending_override: Option<Option<u64>>,
    /// reported by system info
    pub reported_terminal_id: Option<String>,
    /// partial reversal: the (final) status information omits the receipt number
    pub final_status_without_receipt: bool,
}

impl Default for ExPlan {
    fn default() -> Self {
        ExPlan { pre: vec![], result: ExResult::Normal, status: None, card: None, silent_ms: 0, pending_override: None, reported_terminal_id: None, final_status_without_receipt: false }
    }
}

#[derive(Clone, Copy, Debug, PartialEq, Eq, Hash, PartialOrd, Ord)]
pub enum Cmd {
    Registration,
    SystemInfo,
    SetTerminalId,
    Initialization,
    Reservation,
    PartialReversal,
    PendingQuery,
    PreAuthReversal,
    EndOfDay,
    ReadCard,
    Other,
}

#[derive(Clone, Copy, Debug, PartialEq, Eq, Hash, PartialOrd, Ord)]
pub enum FaultKind {
    Refuse,
    /// connect never resolves
    ConnectStall,
    Close,
    Garbage,
    Nack,
    Foreign,
    Silence,
    WrongSerial,
    /// a well-formed Abort (06 1E 01 xx) where the exchange's reply set has none (registration reply)
    AbortReply,
    /// a bare completion 06 0F 00 where the exchange needs a completion with content (system-info reply)
    EmptyCompletion,
    /// the i-th of a list of well-formed packets, used only where it lies outside the exchange's reply set
    Unexpected(u8),
    /// not a fault: the terminal pauses this many seconds before this packet and then carries on normally
    Pause(u32),
    /// the terminal sends this (regular) reply packet and closes the connection at once, before the client's
    /// acknowledgement can be written: the client notices the loss while *writing*
    CloseAfter,
    /// the terminal closes the idle connection before the call starts: the client's next command write fails
    IdleClose,
    /// the terminal says something unsolicited on the idle connection before the call starts: 0 = the first two bytes of
    /// a packet and then nothing more (connection kept open), 1 = one byte and then nothing more, 2 = a complete
    /// intermediate status (and it goes on serving), 3 = a header announcing 200 bytes followed by 3 of them, then nothing
    IdleBytes(u8),
}

/// Well-formed packets a terminal could send; each is a fault only where the reply set does not contain it.
pub const UNEXPECTED: [&[u8]; 7] = [
    &[0x06, 0x1e, 0x01, 0x6f],
    &[0x06, 0x0f, 0x00],
    &[0x04, 0xff, 0x01, 0x17],
    &[0x04, 0x0f, 0x02, 0x27, 0x00],
    &[0x06, 0xd1, 0x02, 0x00, 0x41],
    &[0x04, 0x01, 0x0a, 0xaa, 0x00, 0x04, 0x05, 0x0c, 0x22, 0x55, 0x58],
    &[0x80, 0x00, 0x00],
];

fn stream_of(cmd: Cmd) -> Option<&'static str> {
    Some(match cmd {
        Cmd::Registration => "Registration",
        Cmd::SystemInfo => "feig::GetSystemInfo",
        Cmd::SetTerminalId => "SetTerminalId",
        Cmd::Initialization => "Initialization",
        Cmd::Reservation => "Reservation",
        Cmd::PartialReversal | Cmd::PendingQuery => "PartialReversal",
        Cmd::PreAuthReversal => "PreAuthReversal",
        Cmd::EndOfDay => "EndOfDay",
        Cmd::ReadCard => "ReadCard",
        Cmd::Other => return None,
    })
}

/// Is packet `pkt` outside what the client may receive at this point of the exchange?
fn is_unexpected(schema: &Schema, cmd: Cmd, reply_idx: usize, pkt: &[u8]) -> bool {
    if reply_idx == 0 {
        return pkt != ACK;
    }
    let Some(name) = stream_of(cmd) else { return false };
    let sd = refcodec::tables::STREAMS.iter().find(|s| s.name == name).unwrap();
    let e = refcodec::tables::reply_enum(sd.replies);
    !e.variants.iter().any(|(_, key)| schema.get(key).cf == Some((pkt[0], pkt[1])))
}

#[derive(Clone, Debug, PartialEq)]
pub enum At {
    /// the n-th terminal->client packet of the call (0-based, acks included)
    Tx(usize),
    /// every time this packet of this exchange kind is due (persistent): reply_idx 0 = the ack
    Point(Cmd, usize),
    /// the first time this packet of this exchange kind is due in the call (one-shot)
    PointOnce(Cmd, usize),
    /// the n-th connection attempt of the call
    Connect(usize),
    /// every connection attempt
    AnyConnect,
    /// between the previous call and this one (idle connection)
    Idle,
    /// on the k-th connection this call uses (k = 0 for the one it starts on), at that connection's (k * step + offset)-th
    /// terminal->client packet counted from the first packet sent on it in this call: a fault that creeps forward by
    /// `step` packets with every re-connection
    Creeping { offset: usize, step: usize },
    /// in the a-th exchange of this kind within the call (a = 0, 1, ...): at its (a * step + offset)-th packet (0 = the
    /// acknowledgement): every re-sent exchange gets `step` replies further than the one before
    CreepingIn { cmd: Cmd, offset: usize, step: usize },
}

#[derive(Clone, Debug, PartialEq)]
pub struct FaultSpec {
    pub call: usize,
    pub at: At,
    pub kind: FaultKind,
}

impl Plan {
    pub fn push(&mut self, call: usize, cmd: Cmd, x: ExPlan) {
        self.ex.entry((call, cmd)).or_default().push_back(x);
    }
}

#[derive(Clone, Debug, Default)]
pub struct Plan {
    /// (call index, command kind) -> how the terminal answers the successive exchanges of that kind in that call
    pub ex: BTreeMap<(usize, Cmd), VecDeque<ExPlan>>,
    pub faults: Vec<FaultSpec>,
    /// non-fault delays: virtual ms before every terminal->client packet
    pub delay_ms: u64,
    /// split every packet in two writes with this delay between them
    pub split_delay_ms: Option<u64>,
    /// serial in the other letter case
    pub flip_serial_case: bool,
    /// which other serial a WrongSerial fault reports: 0 reversed, 1 the configured one without its last character,
    /// 2 blank (NULs), 3 empty after trimming (spaces), 4 only the first character, 5 last character changed, 6 first
    /// character changed, 7 the configured one with its two halves swapped
    pub wrong_serial_variant: u8,
    /// the last queued exchange plan of a (call, command) is used again and again instead of falling back to the default
    pub sticky_last_plan: bool,
    /// the registration completion carries the optional status byte (BMP 19) with this value (and a terminal id)
    pub registration_status_byte: Option<u8>,
    /// from the start of this call on the terminal holds a dangling pre-authorisation with this receipt number and
    /// reports it on every pending query until a reversal of it completes
    pub dangling_from_call: Option<(usize, u64)>,
    /// receipt numbers repeat: the terminal issues only this many different numbers, in turn (0: the counter runs on) -
    /// two reservations that are open at the same time can then carry the same number
    pub receipt_cycle: u64,
}

// ---------------------------------------------------------------- shared state and log

#[derive(Clone, Debug, PartialEq)]
pub enum Dir {
    Open,
    Rx,
    Tx,
    Fault(FaultKind),
    RxAfterFault,
    Eof,
    ConnectRefused,
    ConnectStalled,
    Vetted,
    Note(String),
}

#[derive(Clone, Debug)]
pub struct ConnEv {
    pub t_ms: u64,
    pub call: usize,
    pub conn: usize,
    pub dir: Dir,
    pub bytes: Vec<u8>,
}

#[derive(Clone, Debug)]
pub struct Request {
    pub t_ms: u64,
    pub call: usize,
    pub conn: usize,
    pub cmd: Cmd,
    pub key: String,
    pub val: Val,
    pub bytes: Vec<u8>,
    /// index of the log entry
    pub log_index: usize,
}

#[derive(Clone, Debug, PartialEq)]
pub enum PreAuthState {
    Open,
    Committed,
    Cancelled,
}

#[derive(Clone, Debug)]
pub struct PreAuth {
    pub receipt: u64,
    pub token: String,
    pub reserved: u128,
    pub released: Option<u128>,
    pub state: PreAuthState,
}

#[derive(Clone, Debug)]
pub struct TxPoint {
    pub call: usize,
    pub tx_index: usize,
    pub cmd: Cmd,
    pub reply_idx: usize,
    pub conn: usize,
}

pub struct Shared {
    pub schema: Arc<Schema>,
    pub serial: String,
    pub terminal_id: String,
    pub plan: Plan,
    pub log: Vec<ConnEv>,
    pub requests: Vec<Request>,
    pub ledger: Vec<PreAuth>,
    pub next_receipt: u64,
    /// reservations answered so far / the first number issued (receipt_cycle)
    pub issued: u64,
    pub first_receipt: Option<u64>,
    /// receipt the terminal reports as dangling on a pending query
    pub dangling: Option<u64>,
    pub next_conn: usize,
    pub call: usize,
    pub tx_in_call: usize,
    pub connects_in_call: usize,
    pub tx_points: Vec<TxPoint>,
    pub last_status: Option<StatusFields>,
    /// indices (into plan.faults) of one-shot point faults that have fired
    pub fired: Vec<usize>,
    pub start: tokio::time::Instant,
    pub trace_counter: u64,
    /// wakes the serving tasks when the terminal closes its idle connections
    pub kill: Arc<tokio::sync::Notify>,
    pub kill_epoch: u64,
    /// what the serving tasks do when woken by `kill`
    pub idle_action: Option<FaultKind>,
    /// exchanges started in the current call, per command kind (acknowledgements sent)
    pub attempts_in_call: BTreeMap<Cmd, usize>,
}

pub type SharedRef = Arc<Mutex<Shared>>;

impl Shared {
    pub fn new(schema: Arc<Schema>, serial: &str, terminal_id: &str, plan: Plan) -> Shared {
        Shared {
            schema,
            serial: serial.to_string(),
            terminal_id: terminal_id.to_string(),
            plan,
            log: vec![],
            requests: vec![],
            ledger: vec![],
            next_receipt: 231,
            issued: 0,
            first_receipt: None,
            dangling: None,
            next_conn: 0,
            call: 0,
            tx_in_call: 0,
            connects_in_call: 0,
            tx_points: vec![],
            last_status: None,
            fired: vec![],
            start: tokio::time::Instant::now(),
            trace_counter: 975,
            kill: Arc::new(tokio::sync::Notify::new()),
            kill_epoch: 0,
            idle_action: None,
            attempts_in_call: BTreeMap::new(),
        }
    }
    fn now_ms(&self) -> u64 {
        self.start.elapsed().as_millis() as u64
    }
    fn ev(&mut self, conn: usize, dir: Dir, bytes: &[u8]) -> usize {
        // a scenario that runs into the watchdog can produce events without end: keep the first 200000
        if self.log.len() >= 200_000 {
            return self.log.len() - 1;
        }
        let e = ConnEv { t_ms: self.now_ms(), call: self.call, conn, dir, bytes: bytes.to_vec() };
        self.log.push(e);
        self.log.len() - 1
    }
    /// The harness announces the start of the next public call.
    /// Returns true if the terminal closes its idle connections now (the caller then lets the serving tasks run).
    pub fn begin_call(&mut self) -> bool {
        self.call += 1;
        self.attempts_in_call.clear();
        self.tx_in_call = 0;
        self.connects_in_call = 0;
        if let Some((c, d)) = self.plan.dangling_from_call {
            if c == self.call {
                self.dangling = Some(d);
            }
        }
        let call = self.call;
        if let Some(f) = self.plan.faults.iter().find(|f| f.call == call && f.at == At::Idle) {
            self.idle_action = Some(f.kind);
            self.kill_epoch += 1;
            self.kill.notify_waiters();
            return true;
        }
        false
    }
    fn take_explan(&mut self, cmd: Cmd) -> ExPlan {
        let call = self.call;
        let sticky = self.plan.sticky_last_plan;
        self.plan.ex.get_mut(&(call, cmd)).and_then(|q| if sticky && q.len() == 1 { q.front().cloned() } else { q.pop_front() }).unwrap_or_default()
    }
}

pub fn classify(key: &str, val: &Val) -> Cmd {
    match key {
        "packets::Registration" => Cmd::Registration,
        "feig::packets::CVendFunctions" => Cmd::SystemInfo,
        "packets::SetTerminalId" => Cmd::SetTerminalId,
        "packets::Initialization" => Cmd::Initialization,
        "packets::Reservation" => Cmd::Reservation,
        "packets::PartialReversal" => {
            if val.field("receipt_no").and_then(|r| r.num()) == Some(0xffff) {
                Cmd::PendingQuery
            } else {
                Cmd::PartialReversal
            }
        }
        "packets::PreAuthReversal" => Cmd::PreAuthReversal,
        "packets::EndOfDay" => Cmd::EndOfDay,
        "packets::ReadCard" => Cmd::ReadCard,
        _ => Cmd::Other,
    }
}

fn key_for_cf(c: u8, i: u8) -> Option<&'static str> {
    Some(match (c, i) {
        (0x06, 0x00) => "packets::Registration",
        (0x0f, 0xa1) => "feig::packets::CVendFunctions",
        (0x06, 0x1b) => "packets::SetTerminalId",
        (0x06, 0x93) => "packets::Initialization",
        (0x06, 0x22) => "packets::Reservation",
        (0x06, 0x23) => "packets::PartialReversal",
        (0x06, 0x25) => "packets::PreAuthReversal",
        (0x06, 0x50) => "packets::EndOfDay",
        (0x06, 0xc0) => "packets::ReadCard",
        _ => return None,
    })
}

// ---------------------------------------------------------------- the terminal side of an exchange

pub const ACK: [u8; 3] = [0x80, 0x00, 0x00];

fn hexs(s: &str) -> Val {
    Val::Hex(s.to_string())
}

fn status_packet(e: &Enc0, st: &StatusFields, receipt: Option<u64>, card: Option<&CardData>) -> Vec<u8> {
    let mut f: Vec<(&str, Val)> = vec![("result_code", Val::Num(st.result_code.unwrap_or(0) as u128))];
    if let Some(x) = st.amount {
        f.push(("amount", Val::Num(x as u128)));
    }
    if let Some(x) = st.trace_number {
        f.push(("trace_number", Val::Num(x as u128)));
    }
    if let Some(x) = st.date {
        f.push(("date", Val::Num(x as u128)));
    }
    if let Some(x) = st.time {
        f.push(("time", Val::Num(x as u128)));
    }
    if let Some(x) = st.terminal_id {
        f.push(("terminal_id", Val::Num(x as u128)));
    }
    if let Some(x) = st.currency {
        f.push(("currency", Val::Num(x as u128)));
    }
    if let Some(x) = &st.card_name {
        f.push(("card_name", Val::Text(x.clone())));
    }
    if let Some(r) = receipt {
        f.push(("receipt_no", Val::Num(r as u128)));
    }
    if let Some(c) = card {
        if let Some(t) = &c.track_2 {
            f.push(("track_2_data", hexs(t)));
        }
        if !c.no_tlv {
            let subs_val = |list: &[(Option<String>, Option<String>)]| {
                Val::List(
                    list.iter()
                        .map(|(ct, aid)| {
                            let mut fs: Vec<(&str, Val)> = vec![];
                            if let Some(ct) = ct {
                                fs.push(("card_type", hexs(ct)));
                            }
                            if let Some(a) = aid {
                                fs.push(("application_id", hexs(a)));
                            }
                            e.make("packets::tlv::Subs", &fs)
                        })
                        .collect(),
                )
            };
            let mut tf: Vec<(&str, Val)> = vec![("subs", subs_val(&c.subs))];
            if let Some(u) = &c.uid {
                tf.push(("uuid", hexs(u)));
            }
            if let Some(x) = c.card_type {
                tf.push(("card_type", Val::Num(x as u128)));
            }
            if let Some(x) = &c.ats {
                tf.push(("ats", hexs(x)));
            }
            if let Some(x) = c.sak {
                tf.push(("sak", Val::Num(x as u128)));
            }
            if let Some(x) = c.max_pre_auth {
                tf.push(("maximum_pre_autorisation", Val::Num(x as u128)));
            }
            if let Some(list) = &c.subs_on_card {
                tf.push(("subs_on_card", e.make("packets::tlv::SubsOnCard", &[("subs", subs_val(list))])));
            }
            f.push(("tlv", e.make("packets::tlv::StatusInformation", &tf)));
        }
    }
    e.packet("packets::StatusInformation", &f)
}

fn pre_packets(e: &Enc0, pre: &[Pre], status: &StatusFields) -> Vec<Vec<u8>> {
    pre.iter()
        .map(|p| match p {
            Pre::Intermediate { status, timeout } => e.packet("packets::IntermediateStatusInformation", &[("status", Val::Num(*status as u128)), ("timeout", Val::Num(*timeout as u128))]),
            Pre::PrintLine(t) => e.packet("packets::PrintLine", &[("attribute", Val::Num(0)), ("text", Val::Text(t.clone()))]),
            Pre::PrintTextBlock => e.packet("packets::PrintTextBlock", &[]),
            Pre::PlainStatus => status_packet(e, status, None, None),
            Pre::StatusWithResult(c) => status_packet(e, &StatusFields { result_code: Some(*c), ..status.clone() }, None, None),
            Pre::FullStatus(st, rcpt) => status_packet(e, st, *rcpt, None),
            Pre::ReceiptStatus(r) => status_packet(e, status, Some(*r), None),
        })
        .collect()
}

/// What the exchange changes in the terminal's books — applied when its final packet has actually been sent.
#[derive(Clone, Debug)]
pub enum Effect {
    None,
    Reserve { receipt: u64, token: String, reserved: u128 },
    Commit { receipt: u64, amount: u128, status: Option<StatusFields> },
    Cancel { receipt: u64 },
}

pub fn apply_effect(sh: &mut Shared, e: Effect) {
    match e {
        Effect::None => {}
        Effect::Reserve { receipt, token, reserved } => sh.ledger.push(PreAuth { receipt, token, reserved, released: None, state: PreAuthState::Open }),
        Effect::Commit { receipt, amount, status } => {
            if let Some(p) = sh.ledger.iter_mut().rev().find(|p| p.receipt == receipt && p.state == PreAuthState::Open) {
                p.released = Some(amount);
                p.state = PreAuthState::Committed;
            }
            if status.is_some() {
                sh.last_status = status;
            }
        }
        Effect::Cancel { receipt } => {
            if let Some(p) = sh.ledger.iter_mut().rev().find(|p| p.receipt == receipt && p.state == PreAuthState::Open) {
                p.state = PreAuthState::Cancelled;
            }
            if sh.dangling == Some(receipt) {
                sh.dangling = None;
            }
        }
    }
}

/// The terminal's answer to one command: packets after the ack, how long it stays silent before the last one,
/// and the effect on its books once the last packet is out.
fn respond(sh: &mut Shared, cmd: Cmd, val: &Val) -> (Vec<Vec<u8>>, u64, Effect) {
    let mut effect = Effect::None;
    let schema = sh.schema.clone();
    let e = Enc0 { schema: &schema };
    let xp = sh.take_explan(cmd);
    let completion = |e: &Enc0| e.packet("packets::CompletionData", &[]);
    let abort = |e: &Enc0, c: u8| e.packet("packets::Abort", &[("error", Val::Num(c as u128))]);
    let default_status = StatusFields { amount: Some(2500), trace_number: Some(sh.trace_counter), date: Some(405), time: Some(225558), terminal_id: Some(52523535), currency: Some(978), card_name: Some("girocard".into()), result_code: None };
    let status = xp.status.clone().unwrap_or(default_status);
    let mut out = pre_packets(&e, &xp.pre, &status);
    match cmd {
        Cmd::Registration => match sh.plan.registration_status_byte {
            Some(b) => out.push(e.packet("packets::CompletionData", &[("status_byte", Val::Num(b as u128)), ("terminal_id", Val::Num(52523535)), ("currency", Val::Num(978))])),
            None => out.push(completion(&e)),
        },
        Cmd::SystemInfo => match xp.result {
            ExResult::Abort(c) | ExResult::AbortWithReceipt(c, _) => out.push(abort(&e, c)),
            _ => {
                let serial = if sh.plan.flip_serial_case { flip_case(&sh.serial) } else { sh.serial.clone() };
                let tid = xp.reported_terminal_id.clone().unwrap_or_else(|| sh.terminal_id.clone());
                out.push(e.packet(
                    "feig::packets::CVendFunctionsEnhancedSystemInformationCompletion",
                    &[("device_id", Val::Text(serial)), ("sw_version", Val::Text("GER-APP-v2.0.9   ".into())), ("terminal_id", Val::Text(tid)), ("temperature", Val::Text("24.4".into()))],
                ));
            }
        },
        Cmd::SetTerminalId | Cmd::Initialization | Cmd::Other => match xp.result {
            ExResult::Abort(c) | ExResult::AbortWithReceipt(c, _) => out.push(abort(&e, c)),
            _ => out.push(completion(&e)),
        },
        Cmd::Reservation => match xp.result {
            ExResult::Abort(c) | ExResult::AbortWithReceipt(c, _) => out.push(abort(&e, c)),
            ExResult::NoStatus => out.push(completion(&e)),
            ExResult::NoReceipt => {
                out.push(status_packet(&e, &status, None, None));
                out.push(completion(&e));
            }
            ExResult::Normal => {
                let receipt = sh.next_receipt;
                sh.next_receipt = if receipt >= 9999 { 1 } else { receipt + 1 };
                if sh.plan.receipt_cycle > 0 {
                    sh.issued += 1;
                    let first = *sh.first_receipt.get_or_insert(receipt);
                    sh.next_receipt = first + sh.issued % sh.plan.receipt_cycle;
                }
                sh.trace_counter += 1;
                let token = val.path("tlv.bmp_data.bmp_data").and_then(|t| t.text()).unwrap_or("").to_string();
                let reserved = val.field("amount").and_then(|a| a.num()).unwrap_or(0);
                effect = Effect::Reserve { receipt, token, reserved };
                out.push(status_packet(&e, &status, Some(receipt), None));
                out.push(completion(&e));
            }
        },
        Cmd::PartialReversal => match xp.result {
            ExResult::Abort(c) => out.push(e.packet("packets::PartialReversalAbort", &[("error", Val::Num(c as u128))])),
            ExResult::AbortWithReceipt(c, r) => {
                let echo = val.field("receipt_no").and_then(|x| x.num()).unwrap_or(0xffff);
                out.push(e.packet("packets::PartialReversalAbort", &[("error", Val::Num(c as u128)), ("receipt_no", Val::Num(r.map(|x| x as u128).unwrap_or(echo)))]))
            }
            ref other => {
                let receipt = val.field("receipt_no").and_then(|r| r.num()).unwrap_or(0) as u64;
                let amount = val.field("amount").and_then(|a| a.num()).unwrap_or(0);
                sh.trace_counter += 1;
                let mut reported = None;
                if *other != ExResult::NoStatus {
                    reported = Some(status.clone());
                    out.push(status_packet(&e, &status, if xp.final_status_without_receipt { None } else { Some(receipt) }, None));
                }
                effect = Effect::Commit { receipt, amount, status: reported };
                out.push(completion(&e));
            }
        },
        Cmd::PendingQuery => {
            // 2.10.1: abort B8 carrying the receipt number of a dangling pre-authorisation (FFFF: none)
            let mut f: Vec<(&str, Val)> = vec![("error", Val::Num(0xb8))];
            match xp.pending_override {
                Some(None) => {}
                Some(Some(r)) => f.push(("receipt_no", Val::Num(r as u128))),
                None => f.push(("receipt_no", Val::Num(sh.dangling.map(|d| d as u128).unwrap_or(0xffff)))),
            }
            out.push(e.packet("packets::PartialReversalAbort", &f));
        }
        Cmd::PreAuthReversal => match xp.result {
            ExResult::Abort(c) => out.push(e.packet("packets::PartialReversalAbort", &[("error", Val::Num(c as u128))])),
            ExResult::AbortWithReceipt(c, r) => {
                let echo = val.field("receipt_no").and_then(|x| x.num()).unwrap_or(0xffff);
                out.push(e.packet("packets::PartialReversalAbort", &[("error", Val::Num(c as u128)), ("receipt_no", Val::Num(r.map(|x| x as u128).unwrap_or(echo)))]))
            }
            _ => {
                let receipt = val.field("receipt_no").and_then(|r| r.num()).unwrap_or(0) as u64;
                effect = Effect::Cancel { receipt };
                out.push(completion(&e));
            }
        },
        Cmd::EndOfDay => match xp.result {
            ExResult::Abort(c) => out.push(e.packet("packets::PartialReversalAbort", &[("error", Val::Num(c as u128))])),
            ExResult::AbortWithReceipt(c, r) => out.push(e.packet("packets::PartialReversalAbort", &[("error", Val::Num(c as u128)), ("receipt_no", Val::Num(r.map(|x| x as u128).unwrap_or(0xffff)))])),
            _ => out.push(completion(&e)),
        },
        Cmd::ReadCard => match xp.result {
            ExResult::Abort(c) | ExResult::AbortWithReceipt(c, _) => out.push(abort(&e, c)),
            _ => {
                let card = xp.card.clone().unwrap_or(CardData { uid: Some("000000000000081ca72f".into()), ..CardData::default() });
                out.push(status_packet(&e, &card.status.clone().unwrap_or_default(), card.receipt, Some(&card)));
            }
        },
    }
    (out, xp.silent_ms, effect)
}

pub fn flip_case(s: &str) -> String {
    s.chars().map(|c| if c.is_ascii_lowercase() { c.to_ascii_uppercase() } else { c.to_ascii_lowercase() }).collect()
}

async fn read_frame(io: &mut DuplexStream) -> Option<Vec<u8>> {
    let mut h = [0u8; 3];
    io.read_exact(&mut h).await.ok()?;
    let mut pkt = h.to_vec();
    let len = if h[2] == 0xff {
        let mut x = [0u8; 2];
        io.read_exact(&mut x).await.ok()?;
        pkt.extend(x);
        u16::from_le_bytes(x) as usize
    } else {
        h[2] as usize
    };
    let mut body = vec![0u8; len];
    io.read_exact(&mut body).await.ok()?;
    pkt.extend(body);
    Some(pkt)
}

/// After a fault the terminal is passive on this connection: it only records what the client still writes.
async fn passive(shared: &SharedRef, io: &mut DuplexStream, conn: usize) {
    let mut buf = [0u8; 256];
    loop {
        match io.read(&mut buf).await {
            Ok(0) | Err(_) => {
                shared.lock().unwrap().ev(conn, Dir::Eof, &[]);
                // the terminal does not close its side either: whoever waits for that waits forever
                std::future::pending::<()>().await;
                return;
            }
            Ok(n) => {
                shared.lock().unwrap().ev(conn, Dir::RxAfterFault, &buf[..n]);
            }
        }
    }
}

enum TxAction {
    Send,
    /// send after a pause of this many virtual milliseconds
    SendAfter(u64),
    Fault(FaultKind),
}

fn next_tx_action(sh: &mut Shared, cmd: Cmd, reply_idx: usize, conn: usize) -> TxAction {
    let idx = sh.tx_in_call;
    sh.tx_in_call += 1;
    let call = sh.call;
    if reply_idx == 0 {
        *sh.attempts_in_call.entry(cmd).or_insert(0) += 1;
    }
    // (the numbering of a run that goes on for a virtual day is of no use to anybody)
    if sh.tx_points.len() < 200_000 {
        sh.tx_points.push(TxPoint { call, tx_index: idx, cmd, reply_idx, conn });
    }
    for (fi, f) in sh.plan.faults.iter().enumerate() {
        if f.call != call {
            continue;
        }
        let hit = match &f.at {
            At::Tx(i) => *i == idx,
            At::Point(c, r) => *c == cmd && *r == reply_idx,
            At::PointOnce(c, r) => *c == cmd && *r == reply_idx && !sh.fired.contains(&fi),
            At::CreepingIn { cmd: c, offset, step } => {
                let attempts = sh.attempts_in_call.get(c).copied().unwrap_or(0);
                *c == cmd && attempts >= 1 && reply_idx == (attempts - 1) * step + offset
            }
            At::Creeping { offset, step } => {
                // connections of this call in order of first use; packets already sent on this one in this call
                let mut conns: Vec<usize> = vec![];
                for p in sh.tx_points.iter().filter(|p| p.call == call) {
                    if !conns.contains(&p.conn) {
                        conns.push(p.conn);
                    }
                }
                let k = conns.iter().position(|c| *c == conn).unwrap_or(0);
                let sent_here = sh.tx_points.iter().filter(|p| p.call == call && p.conn == conn).count() - 1;
                sent_here == k * step + offset
            }
            _ => false,
        };
        if hit {
            // a wrong serial is a property of the terminal behind a *new* connection: only during the handshake
            if f.kind == FaultKind::WrongSerial && (cmd != Cmd::SystemInfo || reply_idx != 1 || sh.log.iter().any(|e| e.conn == conn && e.dir == Dir::Vetted)) {
                continue;
            }
            // replies that are only *unexpected* where the reply set does not contain them
            if f.kind == FaultKind::AbortReply && (cmd != Cmd::Registration || reply_idx != 1) {
                continue;
            }
            if f.kind == FaultKind::EmptyCompletion && (cmd != Cmd::SystemInfo || reply_idx != 1 || sh.log.iter().any(|e| e.conn == conn && e.dir == Dir::Vetted)) {
                continue;
            }
            if f.kind == FaultKind::CloseAfter && reply_idx == 0 {
                continue;
            }
            if let FaultKind::Unexpected(i) = f.kind {
                if !is_unexpected(&sh.schema, cmd, reply_idx, UNEXPECTED[i as usize % UNEXPECTED.len()]) {
                    continue;
                }
            }
            let kind = f.kind;
            if matches!(f.at, At::PointOnce(..)) {
                sh.fired.push(fi);
            }
            if let FaultKind::Pause(secs) = kind {
                return TxAction::SendAfter(secs as u64 * 1000);
            }
            return TxAction::Fault(kind);
        }
    }
    TxAction::Send
}

async fn send(shared: &SharedRef, io: &mut DuplexStream, conn: usize, pkt: &[u8]) -> bool {
    let (delay, split) = {
        let sh = shared.lock().unwrap();
        (sh.plan.delay_ms, sh.plan.split_delay_ms)
    };
    if delay > 0 {
        tokio::time::sleep(std::time::Duration::from_millis(delay)).await;
    }
    let ok = if let (Some(d), true) = (split, pkt.len() > 1) {
        let mid = pkt.len() / 2;
        let a = io.write_all(&pkt[..mid]).await.is_ok();
        tokio::time::sleep(std::time::Duration::from_millis(d)).await;
        a && io.write_all(&pkt[mid..]).await.is_ok()
    } else {
        io.write_all(pkt).await.is_ok()
    };
    shared.lock().unwrap().ev(conn, Dir::Tx, pkt);
    ok
}

async fn serve(shared: SharedRef, mut io: DuplexStream, conn: usize) {
    let (kill, mut epoch0) = {
        let sh = shared.lock().unwrap();
        (sh.kill.clone(), sh.kill_epoch)
    };
    loop {
        // the epoch is checked first: a notification sent while this task was still busy with the previous exchange
        // (e.g. reading the client's last acknowledgement) would otherwise be lost
        let frame = if shared.lock().unwrap().kill_epoch != epoch0 {
            None
        } else {
            tokio::select! {
                biased;
                _ = kill.notified() => None,
                f = read_frame(&mut io) => Some(f),
            }
        };
        let Some(frame) = frame else {
            let (epoch, action) = {
                let sh = shared.lock().unwrap();
                (sh.kill_epoch, sh.idle_action)
            };
            if epoch != epoch0 {
                epoch0 = epoch;
                match action {
                    Some(FaultKind::IdleBytes(v)) => {
                        let bytes: Vec<u8> = match v % 4 {
                            0 => vec![0x04, 0xff],
                            1 => vec![0x06],
                            2 => vec![0x04, 0xff, 0x01, 0x0a],
                            _ => vec![0x04, 0x0f, 0xc8, 0x27, 0x00, 0x04],
                        };
                        shared.lock().unwrap().ev(conn, Dir::Fault(FaultKind::IdleBytes(v)), &bytes);
                        let _ = io.write_all(&bytes).await;
                        if v % 4 == 2 {
                            continue; // a complete packet: the terminal goes on serving
                        }
                        passive(&shared, &mut io, conn).await;
                        return;
                    }
                    _ => {
                        shared.lock().unwrap().ev(conn, Dir::Fault(FaultKind::IdleClose), &[]);
                        drop(io);
                        return;
                    }
                }
            }
            continue;
        };
        let Some(pkt) = frame else {
            shared.lock().unwrap().ev(conn, Dir::Eof, &[]);
            return;
        };
        let (script, silent_ms, cmd, effect) = {
            let mut sh = shared.lock().unwrap();
            let li = sh.ev(conn, Dir::Rx, &pkt);
            if pkt == ACK {
                sh.ev(conn, Dir::Note("unexpected acknowledgement outside an exchange".into()), &[]);
                continue;
            }
            let schema = sh.schema.clone();
            let decoded = key_for_cf(pkt[0], pkt[1]).and_then(|key| Codec::new(&schema).decode(schema.get(key), &pkt).ok().filter(|(_, rest)| rest.is_empty()).map(|(v, _)| (key, v)));
            match decoded {
                None => {
                    sh.ev(conn, Dir::Note("request not decodable by the reference codec".into()), &pkt);
                    let t = sh.now_ms();
                    let call = sh.call;
                    sh.requests.push(Request { t_ms: t, call, conn, cmd: Cmd::Other, key: "?".into(), val: Val::Struct(vec![]), bytes: pkt.clone(), log_index: li });
                    (vec![vec![0x84, 0x9a, 0x00]], 0, Cmd::Other, Effect::None)
                }
                Some((key, val)) => {
                    let cmd = classify(key, &val);
                    let t = sh.now_ms();
                    let call = sh.call;
                    sh.requests.push(Request { t_ms: t, call, conn, cmd, key: key.to_string(), val: val.clone(), bytes: pkt.clone(), log_index: li });
                    let (replies, silent, effect) = respond(&mut sh, cmd, &val);
                    let mut script = vec![ACK.to_vec()];
                    script.extend(replies);
                    (script, silent, cmd, effect)
                }
            }
        };
        let n = script.len();
        for (i, p) in script.iter().enumerate() {
            let action = next_tx_action(&mut shared.lock().unwrap(), cmd, i, conn);
            let action = match action {
                TxAction::SendAfter(ms) => {
                    shared.lock().unwrap().ev(conn, Dir::Note(format!("pause {ms} ms")), &[]);
                    tokio::time::sleep(std::time::Duration::from_millis(ms)).await;
                    TxAction::Send
                }
                a => a,
            };
            match action {
                TxAction::SendAfter(_) => unreachable!(),
                TxAction::Send => {
                    if i + 1 == n && silent_ms > 0 {
                        tokio::time::sleep(std::time::Duration::from_millis(silent_ms)).await;
                    }
                    let bytes = p.clone();
                    if !send(&shared, &mut io, conn, &bytes).await {
                        shared.lock().unwrap().ev(conn, Dir::Eof, &[]);
                        return;
                    }
                    if i + 1 == n {
                        // the terminal has acted once its final packet is out
                        apply_effect(&mut shared.lock().unwrap(), effect.clone());
                    }
                    if cmd == Cmd::SystemInfo && i == 1 && bytes.len() > 10 && bytes[0] == 0x06 && bytes[1] == 0x0f {
                        shared.lock().unwrap().ev(conn, Dir::Vetted, &[]);
                    }
                }
                TxAction::Fault(FaultKind::CloseAfter) => {
                    let bytes = p.clone();
                    let _ = send(&shared, &mut io, conn, &bytes).await;
                    if i + 1 == n {
                        apply_effect(&mut shared.lock().unwrap(), effect.clone());
                    }
                    shared.lock().unwrap().ev(conn, Dir::Fault(FaultKind::CloseAfter), &[]);
                    drop(io);
                    return;
                }
                TxAction::Fault(kind) => {
                    shared.lock().unwrap().ev(conn, Dir::Fault(kind), &[]);
                    match kind {
                        FaultKind::Close => {
                            drop(io);
                            return;
                        }
                        FaultKind::Garbage => {
                            let _ = io.write_all(&[0x13, 0x37, 0x02, 0xde, 0xad]).await;
                            let _ = io.write_all(&[0x00, 0x00]).await;
                        }
                        FaultKind::Nack => {
                            let _ = io.write_all(&[0x84, 0x66, 0x00]).await;
                        }
                        FaultKind::Foreign => {
                            // a well-formed packet that no reply set of the client's commands contains
                            let _ = io.write_all(&[0x04, 0x01, 0x0a, 0xaa, 0x00, 0x04, 0x05, 0x0c, 0x22, 0x55, 0x58]).await;
                        }
                        FaultKind::WrongSerial => {
                            let pkt = {
                                let sh = shared.lock().unwrap();
                                let schema = sh.schema.clone();
                                let e = Enc0 { schema: &schema };
                                let cs: Vec<char> = sh.serial.chars().collect();
                                let n = cs.len();
                                let bump = |c: char| if c == '0' { '1' } else { '0' };
                                let other: String = match sh.plan.wrong_serial_variant % 8 {
                                    1 => cs[..n.saturating_sub(1)].iter().collect::<String>() + "\0",
                                    2 => "\0".repeat(n),
                                    3 => " ".repeat(n),
                                    4 => cs.iter().take(1).collect::<String>() + &"\0".repeat(n.saturating_sub(1)),
                                    5 => cs[..n.saturating_sub(1)].iter().collect::<String>() + &bump(*cs.last().unwrap_or(&'0')).to_string(),
                                    6 => bump(*cs.first().unwrap_or(&'0')).to_string() + &cs.iter().skip(1).collect::<String>(),
                                    7 => cs[n / 2..].iter().chain(cs[..n / 2].iter()).collect(),
                                    _ => cs.iter().rev().collect(),
                                };
                                let other = if other.eq_ignore_ascii_case(&sh.serial) { "0BADBAD0".to_string() } else { other };
                                e.packet(
                                    "feig::packets::CVendFunctionsEnhancedSystemInformationCompletion",
                                    &[("device_id", Val::Text(other)), ("sw_version", Val::Text("GER-APP-v2.0.9   ".into())), ("terminal_id", Val::Text(sh.terminal_id.clone())), ("temperature", Val::Text("24.4".into()))],
                                )
                            };
                            let _ = io.write_all(&pkt).await;
                            shared.lock().unwrap().ev(conn, Dir::Tx, &pkt);
                        }
                        FaultKind::AbortReply => {
                            let _ = io.write_all(&[0x06, 0x1e, 0x01, 0x6f]).await;
                        }
                        FaultKind::EmptyCompletion => {
                            let _ = io.write_all(&[0x06, 0x0f, 0x00]).await;
                        }
                        FaultKind::Unexpected(i) => {
                            let _ = io.write_all(UNEXPECTED[i as usize % UNEXPECTED.len()]).await;
                        }
                        FaultKind::Silence | FaultKind::Refuse | FaultKind::ConnectStall | FaultKind::Pause(_) | FaultKind::CloseAfter | FaultKind::IdleClose | FaultKind::IdleBytes(_) => {}
                    }
                    passive(&shared, &mut io, conn).await;
                    return;
                }
            }
            if i > 0 {
                // every reply is answered by the client before the terminal goes on
                match read_frame(&mut io).await {
                    None => {
                        shared.lock().unwrap().ev(conn, Dir::Eof, &[]);
                        return;
                    }
                    Some(a) => {
                        let mut sh = shared.lock().unwrap();
                        sh.ev(conn, Dir::Rx, &a);
                        if a != ACK {
                            sh.ev(conn, Dir::Note("reply was answered with something else than an acknowledgement".into()), &a);
                        }
                    }
                }
            }
        }
    }
}

// ---------------------------------------------------------------- connector

pub struct SimConnector {
    pub shared: SharedRef,
}

impl Connector for SimConnector {
    fn connect(&self, _addr: SocketAddrV4) -> ConnectFuture {
        let shared = self.shared.clone();
        Box::pin(async move {
            // runaway guard: no operation of the client makes thousands of connection attempts within one call (its
            // retry budgets allow a few hundred at most).  A loop that reconnects without ever waiting would spin
            // inside one poll and never let the (virtual) clock reach the watchdog: from here on the connect never
            // resolves, the clock advances, and the call is reported as not returning.
            if shared.lock().unwrap().connects_in_call > 3000 {
                {
                    let mut sh = shared.lock().unwrap();
                    if sh.connects_in_call == 3001 {
                        let c = sh.next_conn;
                        sh.ev(c, Dir::Note("runaway: more than 3000 connection attempts in one call; further attempts never resolve".into()), &[]);
                    }
                    sh.connects_in_call += 1;
                }
                std::future::pending::<()>().await;
            }
            let (fault, conn) = {
                let mut sh = shared.lock().unwrap();
                let ordinal = sh.connects_in_call;
                sh.connects_in_call += 1;
                let call = sh.call;
                let fault = sh.plan.faults.iter().find(|f| f.call == call && (f.at == At::Connect(ordinal) || f.at == At::AnyConnect)).map(|f| f.kind);
                let conn = sh.next_conn;
                sh.next_conn += 1;
                (fault, conn)
            };
            match fault {
                Some(FaultKind::Refuse) => {
                    shared.lock().unwrap().ev(conn, Dir::ConnectRefused, &[]);
                    Err(std::io::Error::new(std::io::ErrorKind::ConnectionRefused, "simulated terminal refuses the connection"))
                }
                Some(FaultKind::ConnectStall) => {
                    shared.lock().unwrap().ev(conn, Dir::ConnectStalled, &[]);
                    std::future::pending::<()>().await;
                    unreachable!()
                }
                _ => {
                    let (client, server) = tokio::io::duplex(1 << 17);
                    shared.lock().unwrap().ev(conn, Dir::Open, &[]);
                    tokio::spawn(serve(shared.clone(), server, conn));
                    let b: Box<dyn VerifIo> = Box::new(client);
                    Ok(b)
                }
            }
        })
    }
}

static NEXT_IP: std::sync::atomic::AtomicU32 = std::sync::atomic::AtomicU32::new(0x0a00_0001);

pub fn fresh_ip() -> Ipv4Addr {
    Ipv4Addr::from(NEXT_IP.fetch_add(1, std::sync::atomic::Ordering::Relaxed))
}
