//! Dispatch to the real code under test: one entry per shipped struct and per
//! reply enum.  Everything here calls only public API of /repo's crates.

use std::fmt::Debug;
pub use refcodec::engine::{clear_last_panic, guarded, install_panic_hook, panic_signature, take_last_panic, Outcome};
use zvt::feig::packets as fp;
use zvt::feig::sequences as fs;
use zvt::packets as p;
use zvt::sequences as s;
use zvt::{encoding, ZvtParser, ZvtSerializer};

/// Dispatch key of a shipped type ("packets::tlv::X", "feig::packets::X").
pub fn key_of<T>() -> &'static str {
    let n = std::any::type_name::<T>();
    n.strip_prefix("zvt::").unwrap_or(n)
}

fn run<T>(bytes: &[u8]) -> Outcome
where
    T: ZvtSerializer + Debug + PartialEq,
    encoding::Default: encoding::Encoding<T>,
{
    match T::zvt_deserialize(bytes) {
        Err(e) => Outcome::Err(format!("{e:?}")),
        Ok((x, rest)) => {
            let rest = rest.len();
            let reenc = x.zvt_serialize();
            let _g = refcodec::runaway::begin("decode of the re-serialisation", key_of::<T>(), &reenc);
            let (re_eq, re_rest, re_err, re_debug) = match T::zvt_deserialize(&reenc) {
                Ok((y, r)) => (y == x, r.len(), None, format!("{y:?}")),
                Err(e) => (false, 0, Some(format!("{e:?}")), String::new()),
            };
            Outcome::Ok {
                debug: format!("{x:?}"),
                rest,
                reenc,
                re_eq,
                re_rest,
                re_err,
                re_debug,
            }
        }
    }
}

/// Decode only (C02): digest of the result.
fn decode_only<T>(bytes: &[u8]) -> Result<(String, usize), String>
where
    T: ZvtSerializer + Debug,
    encoding::Default: encoding::Encoding<T>,
{
    match T::zvt_deserialize(bytes) {
        Err(e) => Err(format!("{e:?}")),
        Ok((x, rest)) => Ok((format!("{x:?}"), rest.len())),
    }
}

macro_rules! types {
    ($($key:literal => $ty:ty),* $(,)?) => {
        pub const TYPE_KEYS: &[&str] = &[$($key),*];
        pub fn run_type_raw(key: &str, bytes: &[u8]) -> Outcome {
            match key {
                $($key => run::<$ty>(bytes),)*
                _ => panic!("sut: unknown type {key}"),
            }
        }
        pub fn decode_type_raw(key: &str, bytes: &[u8]) -> Result<(String, usize), String> {
            match key {
                $($key => decode_only::<$ty>(bytes),)*
                _ => panic!("sut: unknown type {key}"),
            }
        }
    };
}

types! {
    "packets::SetTimeAndDate" => p::SetTimeAndDate,
    "packets::NumAndTotal" => p::NumAndTotal,
    "packets::SingleAmounts" => p::SingleAmounts,
    "packets::StatusInformation" => p::StatusInformation,
    "packets::IntermediateStatusInformation" => p::IntermediateStatusInformation,
    "packets::StatusEnquiry" => p::StatusEnquiry,
    "packets::Registration" => p::Registration,
    "packets::CompletionData" => p::CompletionData,
    "packets::ReceiptPrintoutCompletion" => p::ReceiptPrintoutCompletion,
    "packets::ResetTerminal" => p::ResetTerminal,
    "packets::PrintSystemConfiguration" => p::PrintSystemConfiguration,
    "packets::SetTerminalId" => p::SetTerminalId,
    "packets::Abort" => p::Abort,
    "packets::ReservationAbort" => p::ReservationAbort,
    "packets::PartialReversalAbort" => p::PartialReversalAbort,
    "packets::Authorization" => p::Authorization,
    "packets::Reservation" => p::Reservation,
    "packets::PartialReversal" => p::PartialReversal,
    "packets::PreAuthReversal" => p::PreAuthReversal,
    "packets::EndOfDay" => p::EndOfDay,
    "packets::Diagnosis" => p::Diagnosis,
    "packets::Initialization" => p::Initialization,
    "packets::ReadCard" => p::ReadCard,
    "packets::PrintLine" => p::PrintLine,
    "packets::PrintTextBlock" => p::PrintTextBlock,
    "packets::SelectLanguage" => p::SelectLanguage,
    "packets::Ack" => p::Ack,
    "packets::tlv::Subs" => p::tlv::Subs,
    "packets::tlv::SubsOnCard" => p::tlv::SubsOnCard,
    "packets::tlv::StatusInformation" => p::tlv::StatusInformation,
    "packets::tlv::StatusEnquiry" => p::tlv::StatusEnquiry,
    "packets::tlv::DeviceInformation" => p::tlv::DeviceInformation,
    "packets::tlv::ReceiptPrintoutCompletion" => p::tlv::ReceiptPrintoutCompletion,
    "packets::tlv::ReservationAbort" => p::tlv::ReservationAbort,
    "packets::tlv::Bmp60" => p::tlv::Bmp60,
    "packets::tlv::AuthData" => p::tlv::AuthData,
    "packets::tlv::PreAuthData" => p::tlv::PreAuthData,
    "packets::tlv::Diagnosis" => p::tlv::Diagnosis,
    "packets::tlv::ReadCard" => p::tlv::ReadCard,
    "packets::tlv::ZvtString" => p::tlv::ZvtString,
    "packets::tlv::TextLines" => p::tlv::TextLines,
    "packets::tlv::PrintTextBlock" => p::tlv::PrintTextBlock,
    "packets::tlv::Registration" => p::tlv::Registration,
    "feig::packets::tlv::File" => fp::tlv::File,
    "feig::packets::tlv::WriteData" => fp::tlv::WriteData,
    "feig::packets::tlv::WriteFile" => fp::tlv::WriteFile,
    "feig::packets::tlv::HostConfigurationData" => fp::tlv::HostConfigurationData,
    "feig::packets::tlv::SystemInformation" => fp::tlv::SystemInformation,
    "feig::packets::tlv::ChangeConfiguration" => fp::tlv::ChangeConfiguration,
    "feig::packets::RequestForData" => fp::RequestForData,
    "feig::packets::CVendFunctionsEnhancedSystemInformationCompletion" => fp::CVendFunctionsEnhancedSystemInformationCompletion,
    "feig::packets::WriteFile" => fp::WriteFile,
    "feig::packets::ChangeConfiguration" => fp::ChangeConfiguration,
    "feig::packets::CVendFunctions" => fp::CVendFunctions,
    "feig::packets::WriteData" => fp::WriteData,
}

fn parse_dbg<E: ZvtParser + Debug>(bytes: &[u8]) -> Result<String, String> {
    E::zvt_parse(bytes).map(|v| format!("{v:?}")).map_err(|e| format!("{e:?}"))
}

pub const ENUM_KEYS: &[&str] = &[
    "io::Ack",
    "sequences::RegistrationResponse",
    "sequences::ReadCardResponse",
    "sequences::InitializationResponse",
    "sequences::SetTerminalIdResponse",
    "sequences::ResetTerminalResponse",
    "sequences::DiagnosisResponse",
    "sequences::EndOfDayResponse",
    "sequences::AuthorizationResponse",
    "sequences::PartialReversalResponse",
    "sequences::PrintSystemConfigurationResponse",
    "sequences::SelectLanguageResponse",
    "sequences::StatusEnquiryResponse",
    "feig::sequences::GetSystemInfoResponse",
    "feig::sequences::WriteFileResponse",
    "feig::sequences::FactoryResetResponse",
    "feig::sequences::ChangeHostConfigurationResponse",
];

/// Parse through a reply enum; Ok(Debug) is `Variant(Inner {..})`.
pub fn parse_enum_raw(key: &str, bytes: &[u8]) -> Result<String, String> {
    match key {
        "io::Ack" => zvt::io::Ack::zvt_parse(bytes)
            .map(|v| match v {
                zvt::io::Ack::Ack(a) => format!("Ack({a:?})"),
                // tolerate variants added to the enum by a change under test (the harness must keep compiling)
                #[allow(unreachable_patterns)]
                _ => "OtherAckVariant(..)".to_string(),
            })
            .map_err(|e| format!("{e:?}")),
        "sequences::RegistrationResponse" => parse_dbg::<s::RegistrationResponse>(bytes),
        "sequences::ReadCardResponse" => parse_dbg::<s::ReadCardResponse>(bytes),
        "sequences::InitializationResponse" => parse_dbg::<s::InitializationResponse>(bytes),
        "sequences::SetTerminalIdResponse" => parse_dbg::<s::SetTerminalIdResponse>(bytes),
        "sequences::ResetTerminalResponse" => parse_dbg::<s::ResetTerminalResponse>(bytes),
        "sequences::DiagnosisResponse" => parse_dbg::<s::DiagnosisResponse>(bytes),
        "sequences::EndOfDayResponse" => parse_dbg::<s::EndOfDayResponse>(bytes),
        "sequences::AuthorizationResponse" => parse_dbg::<s::AuthorizationResponse>(bytes),
        "sequences::PartialReversalResponse" => parse_dbg::<s::PartialReversalResponse>(bytes),
        "sequences::PrintSystemConfigurationResponse" => parse_dbg::<s::PrintSystemConfigurationResponse>(bytes),
        "sequences::SelectLanguageResponse" => parse_dbg::<s::SelectLanguageResponse>(bytes),
        "sequences::StatusEnquiryResponse" => parse_dbg::<s::StatusEnquiryResponse>(bytes),
        "feig::sequences::GetSystemInfoResponse" => parse_dbg::<fs::GetSystemInfoResponse>(bytes),
        "feig::sequences::WriteFileResponse" => parse_dbg::<fs::WriteFileResponse>(bytes),
        "feig::sequences::FactoryResetResponse" => parse_dbg::<fs::FactoryResetResponse>(bytes),
        "feig::sequences::ChangeHostConfigurationResponse" => parse_dbg::<fs::ChangeHostConfigurationResponse>(bytes),
        _ => panic!("sut: unknown enum {key}"),
    }
}

/// Decode only (no re-encoding of the result): used where the input is not a canonical encoding.
pub fn decode_type(key: &str, bytes: &[u8]) -> Outcome {
    match guarded(|| decode_type_raw(key, bytes)) {
        Ok(Ok((debug, rest))) => Outcome::Ok { debug, rest, reenc: vec![], re_eq: true, re_rest: 0, re_err: None, re_debug: String::new() },
        Ok(Err(e)) => Outcome::Err(e),
        Err(p) => Outcome::Panic(p),
    }
}

pub fn run_type(key: &str, bytes: &[u8]) -> Outcome {
    match guarded(|| run_type_raw(key, bytes)) {
        Ok(o) => o,
        Err(p) => Outcome::Panic(p),
    }
}

