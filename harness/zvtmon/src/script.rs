//! The scripted terminal (DESIGN §6): an in-memory AsyncRead + AsyncWrite with
//! a script of terminal->client byte strings, a gate per entry ("readable only
//! after the client has written N bytes"), configurable chunking, and an
//! append-only event log.  Driven by a hand-written poll loop: no runtime, no
//! sockets, no wall clock; deadlock = a poll that can make no progress.

use std::future::Future;
use std::pin::Pin;
use std::sync::atomic::{AtomicBool, Ordering};
use std::sync::{Arc, Mutex};
use std::task::{Context, Poll, Wake, Waker};
use tokio::io::{AsyncRead, AsyncWrite, ReadBuf};

#[derive(Clone, Debug, PartialEq)]
pub enum Ev {
    /// client wrote these bytes (one poll_write)
    W(Vec<u8>),
    /// client asked to read, offering this much space
    Rq(usize),
    /// bytes delivered to the client
    R(Vec<u8>),
    /// read attempt parked (nothing readable)
    Pend,
    Eof,
    /// the stream under test produced an item
    Yield { ok: bool, debug: String },
    /// the stream under test finished
    End,
    /// the driver found the task parked with nothing that could wake it
    Stuck,
}

#[derive(Clone, Debug)]
pub struct Entry {
    pub bytes: Vec<u8>,
    /// readable once the client has written at least this many bytes in total
    pub gate: usize,
}

#[derive(Clone, Debug, PartialEq)]
pub enum Chunking {
    /// as much as the reader asks for
    Whole,
    /// at most one byte per read
    Bytewise,
    /// stream offsets at which a read result must end (partition of the byte stream)
    Cuts(Vec<usize>),
}

#[derive(Clone, Debug)]
pub struct Script {
    pub entries: Vec<Entry>,
    /// after the last entry: end of stream (true) or silence (false)
    pub eof: bool,
    pub chunking: Chunking,
    /// return Pending (with an immediate wake) before every delivery after the first
    pub pend_between: bool,
    /// accept at most this many bytes per poll_write
    pub write_chunk: Option<usize>,
}

impl Script {
    pub fn new(entries: Vec<Entry>) -> Self {
        Script { entries, eof: false, chunking: Chunking::Whole, pend_between: false, write_chunk: None }
    }
}

pub struct State {
    pub script: Script,
    pub log: Vec<Ev>,
    pub written: usize,
    /// bytes delivered so far (stream offset)
    pub delivered: usize,
    pend_flip: bool,
    /// record R/W payloads (off for the very large C04 runs)
    pub record_payloads: bool,
}

#[derive(Clone)]
pub struct Term(pub Arc<Mutex<State>>);

impl Term {
    pub fn new(script: Script) -> Term {
        Term(Arc::new(Mutex::new(State { script, log: vec![], written: 0, delivered: 0, pend_flip: false, record_payloads: true })))
    }
    pub fn log(&self) -> Vec<Ev> {
        self.0.lock().unwrap().log.clone()
    }
    pub fn push(&self, ev: Ev) {
        self.0.lock().unwrap().log.push(ev);
    }
    pub fn delivered(&self) -> usize {
        self.0.lock().unwrap().delivered
    }
    pub fn written_bytes(&self) -> Vec<u8> {
        self.0.lock().unwrap().log.iter().filter_map(|e| if let Ev::W(b) = e { Some(b.clone()) } else { None }).flatten().collect()
    }
}

impl State {
    /// bytes readable now, starting at the stream offset `delivered`
    fn available(&self) -> Vec<u8> {
        let mut out = vec![];
        let mut off = 0usize;
        for e in &self.script.entries {
            if e.gate > self.written {
                break;
            }
            let end = off + e.bytes.len();
            if end > self.delivered {
                let from = self.delivered.saturating_sub(off);
                out.extend_from_slice(&e.bytes[from..]);
            }
            off = end;
        }
        out
    }
    fn total(&self) -> usize {
        self.script.entries.iter().map(|e| e.bytes.len()).sum()
    }
}

impl AsyncRead for Term {
    fn poll_read(self: Pin<&mut Self>, cx: &mut Context<'_>, buf: &mut ReadBuf<'_>) -> Poll<std::io::Result<()>> {
        let mut st = self.0.lock().unwrap();
        let want = buf.remaining();
        st.log.push(Ev::Rq(want));
        if want == 0 {
            return Poll::Ready(Ok(()));
        }
        let avail = st.available();
        if avail.is_empty() {
            if st.delivered >= st.total() && st.script.eof {
                st.log.push(Ev::Eof);
                return Poll::Ready(Ok(()));
            }
            // gated or silent: nothing in this task can change that
            st.log.push(Ev::Pend);
            return Poll::Pending;
        }
        if st.script.pend_between && st.delivered > 0 && !st.pend_flip {
            st.pend_flip = true;
            cx.waker().wake_by_ref();
            return Poll::Pending;
        }
        st.pend_flip = false;
        let mut n = want.min(avail.len());
        match &st.script.chunking {
            Chunking::Whole => {}
            Chunking::Bytewise => n = 1,
            Chunking::Cuts(cuts) => {
                if let Some(c) = cuts.iter().find(|c| **c > st.delivered) {
                    n = n.min(c - st.delivered);
                }
            }
        }
        buf.put_slice(&avail[..n]);
        st.delivered += n;
        let ev = if st.record_payloads { Ev::R(avail[..n].to_vec()) } else { Ev::R(vec![]) };
        st.log.push(ev);
        Poll::Ready(Ok(()))
    }
}

impl AsyncWrite for Term {
    fn poll_write(self: Pin<&mut Self>, _cx: &mut Context<'_>, buf: &[u8]) -> Poll<std::io::Result<usize>> {
        let mut st = self.0.lock().unwrap();
        let n = st.script.write_chunk.map(|c| c.min(buf.len())).unwrap_or(buf.len());
        st.written += n;
        let ev = Ev::W(buf[..n].to_vec());
        st.log.push(ev);
        Poll::Ready(Ok(n))
    }
    fn poll_flush(self: Pin<&mut Self>, _cx: &mut Context<'_>) -> Poll<std::io::Result<()>> {
        Poll::Ready(Ok(()))
    }
    fn poll_shutdown(self: Pin<&mut Self>, _cx: &mut Context<'_>) -> Poll<std::io::Result<()>> {
        Poll::Ready(Ok(()))
    }
}

// ---------------------------------------------------------------- poll loop

struct Flag(AtomicBool);
impl Wake for Flag {
    fn wake(self: Arc<Self>) {
        self.0.store(true, Ordering::SeqCst);
    }
    fn wake_by_ref(self: &Arc<Self>) {
        self.0.store(true, Ordering::SeqCst);
    }
}

pub enum Polled<T> {
    Ready(T),
    /// parked with no wake-up pending: can never continue
    Stuck,
    /// harness guard: too many polls
    Runaway,
}

/// Poll a future to completion without a runtime.
pub fn block_on<F: Future>(mut fut: Pin<&mut F>) -> Polled<F::Output> {
    let flag = Arc::new(Flag(AtomicBool::new(false)));
    let waker = Waker::from(flag.clone());
    let mut cx = Context::from_waker(&waker);
    for _ in 0..50_000_000u64 {
        flag.0.store(false, Ordering::SeqCst);
        match fut.as_mut().poll(&mut cx) {
            Poll::Ready(v) => return Polled::Ready(v),
            Poll::Pending => {
                if !flag.0.load(Ordering::SeqCst) {
                    return Polled::Stuck;
                }
            }
        }
    }
    Polled::Runaway
}

/// Drive a stream of results to its end, noting Yield / End / Stuck in the terminal's log.
/// Returns false if the harness guard fired.
pub fn drive_stream<T: std::fmt::Debug, S: futures::Stream<Item = anyhow::Result<T>> + ?Sized>(mut stream: Pin<&mut S>, term: &Term, max_items: usize) -> bool {
    use futures::StreamExt;
    for _ in 0..max_items {
        let mut next = stream.next();
        match block_on(Pin::new(&mut next)) {
            Polled::Ready(Some(item)) => {
                let ev = match &item {
                    Ok(v) => Ev::Yield { ok: true, debug: format!("{v:?}") },
                    Err(e) => Ev::Yield { ok: false, debug: format!("{e:#}") },
                };
                term.push(ev);
            }
            Polled::Ready(None) => {
                term.push(Ev::End);
                return true;
            }
            Polled::Stuck => {
                term.push(Ev::Stuck);
                return true;
            }
            Polled::Runaway => return false,
        }
    }
    false
}

pub fn log_to_json(log: &[Ev]) -> serde_json::Value {
    use serde_json::json;
    let short = |b: &Vec<u8>| if b.len() <= 48 { refcodec::hex(b) } else { format!("{}…({} bytes)", refcodec::hex(&b[..24]), b.len()) };
    serde_json::Value::Array(
        log.iter()
            .map(|e| match e {
                Ev::W(b) => json!({"W": short(b)}),
                Ev::Rq(n) => json!({"Rq": n}),
                Ev::R(b) => json!({"R": short(b)}),
                Ev::Pend => json!("Pend"),
                Ev::Eof => json!("Eof"),
                Ev::Yield { ok, debug } => json!({"Yield": if *ok { "ok" } else { "err" }, "debug": debug.chars().take(160).collect::<String>()}),
                Ev::End => json!("End"),
                Ev::Stuck => json!("Stuck"),
            })
            .collect(),
    )
}
