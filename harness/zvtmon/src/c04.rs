pub fn run(_ctx: &crate::Ctx) -> i32 { eprintln!("not built yet"); 2 }
