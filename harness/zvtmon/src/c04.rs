//! C04 — packets are read from a byte stream exactly at APDU boundaries.

use crate::script::{block_on, Chunking, Entry, Ev, Polled, Script, Term};
use crate::sut::{guarded, panic_signature};
use crate::Ctx;
use refcodec::evidence::{sharded, Report};
use refcodec::hex;
use refcodec::prng::{fnv, Rng};
use serde_json::json;
use std::pin::Pin;
use zvt::io::PacketTransport;
use zvt::{ZVTResult, ZvtParser};

/// Accepts any bytes: framing is observed in isolation.
pub struct Raw(pub Vec<u8>);
impl ZvtParser for Raw {
    fn zvt_parse(bytes: &[u8]) -> ZVTResult<Self> {
        Ok(Raw(bytes.to_vec()))
    }
}

/// Independent framing rule: total length of the packet starting at b, if its header is complete.
fn frame_len(b: &[u8]) -> Option<usize> {
    if b.len() < 3 {
        return None;
    }
    if b[2] == 0xff {
        if b.len() < 5 {
            return None;
        }
        Some(5 + (b[3] as usize | ((b[4] as usize) << 8)))
    } else {
        Some(3 + b[2] as usize)
    }
}

/// Split `stream[..eof_at]` into complete packets by the independent rule.
fn expected_packets(stream: &[u8]) -> Vec<&[u8]> {
    let mut out = vec![];
    let mut off = 0;
    while let Some(n) = frame_len(&stream[off..]) {
        if off + n > stream.len() {
            break;
        }
        out.push(&stream[off..off + n]);
        off += n;
    }
    out
}

#[derive(Debug)]
enum ReadRes {
    Ok(Vec<u8>),
    Err(String),
    Stuck,
    Panic(String),
    Runaway,
}

fn read_one(transport: &mut PacketTransport<Term>) -> ReadRes {
    match guarded(|| {
        let mut fut = Box::pin(transport.read_packet::<Raw>());
        match block_on(Pin::new(&mut fut)) {
            Polled::Ready(Ok(Raw(b))) => ReadRes::Ok(b),
            Polled::Ready(Err(e)) => ReadRes::Err(format!("{e:#}")),
            Polled::Stuck => ReadRes::Stuck,
            Polled::Runaway => ReadRes::Runaway,
        }
    }) {
        Ok(r) => r,
        Err(p) => ReadRes::Panic(p),
    }
}

/// One schedule: deliver `stream[..eof_at]` under `chunking`, then end of stream; call read_packet until it fails.
fn run_schedule(r: &mut Report, stream: &[u8], eof_at: usize, chunking: Chunking, pend_between: bool, hashed: bool, record: bool) {
    let data = &stream[..eof_at];
    let expected = expected_packets(data);
    let mut script = Script::new(vec![Entry { bytes: data.to_vec(), gate: 0 }]);
    script.eof = true;
    script.chunking = chunking.clone();
    script.pend_between = pend_between;
    let term = Term::new(script);
    term.0.lock().unwrap().record_payloads = record;
    let mut transport = PacketTransport { source: term.clone() };
    if hashed {
        let mut h = fnv(data) ^ (eof_at as u64) << 32;
        if let Chunking::Cuts(c) = &chunking {
            for x in c {
                h = h.wrapping_mul(31).wrapping_add(*x as u64);
            }
        }
        r.case(h, !data.is_empty());
    } else {
        r.case_enumerated(!data.is_empty());
    }
    let case = || json!({"kind": "transport", "stream": if data.len() <= 64 { hex(data) } else { format!("{} bytes, head {}", data.len(), hex(&data[..16])) }, "chunking": format!("{chunking:?}").chars().take(200).collect::<String>(), "pending_between_chunks": pend_between, "eof_after": eof_at, "expected_packets": expected.len()});
    let mut consumed = 0usize;
    for (k, want) in expected.iter().enumerate() {
        match read_one(&mut transport) {
            ReadRes::Ok(b) => {
                consumed += want.len();
                if b != *want {
                    r.violation("read_packet returns other bytes than the k-th packet", &format!("packet {k}: got {} bytes {}, expected {} bytes {}", b.len(), hex(&b[..b.len().min(24)]), want.len(), hex(&want[..want.len().min(24)])), case());
                    return;
                }
                let cur = term.delivered();
                if cur != consumed {
                    r.violation("read_packet consumes a different number of bytes than header + announced body", &format!("after packet {k} the stream cursor is at {cur}, the packets so far are {consumed} bytes"), case());
                    return;
                }
            }
            ReadRes::Err(e) => {
                r.violation("read_packet fails although the packet was completely delivered", &format!("packet {k}: Err({e})"), case());
                return;
            }
            ReadRes::Stuck => {
                r.violation("read_packet parks although the packet was completely delivered", &format!("packet {k}"), case());
                return;
            }
            ReadRes::Panic(p) => {
                r.violation(&format!("read_packet {}", panic_signature(&p)), &format!("packet {k}: {p}"), case());
                return;
            }
            ReadRes::Runaway => {
                r.inconclusive("harness poll guard fired in C04");
                return;
            }
        }
    }
    // the stream now ends inside or before the next packet: an error, never a packet
    for attempt in 0..2 {
        match read_one(&mut transport) {
            ReadRes::Err(_) => {}
            ReadRes::Ok(b) => {
                r.violation("read_packet returns a packet that was not completely delivered", &format!("after {} complete packets, attempt {attempt}: Ok({} bytes {}) although only {} bytes remained before end of stream", expected.len(), b.len(), hex(&b[..b.len().min(24)]), data.len() - consumed), case());
                return;
            }
            ReadRes::Stuck => {
                r.violation("read_packet parks at end of stream instead of failing", &format!("after {} complete packets", expected.len()), case());
                return;
            }
            ReadRes::Panic(p) => {
                r.violation(&format!("read_packet at end of stream {}", panic_signature(&p)), &p, case());
                return;
            }
            ReadRes::Runaway => {
                r.inconclusive("harness poll guard fired in C04");
                return;
            }
        }
    }
    if record && r.wants_sample() && data.len() > 6 && data.len() < 40 && matches!(&chunking, Chunking::Cuts(c) if c.len() > 1) {
        let log = term.log();
        let reads: Vec<usize> = log.iter().filter_map(|e| if let Ev::R(b) = e { Some(b.len()) } else { None }).collect();
        r.sample(json!({"stream": hex(data), "eof_after": eof_at, "chunk_sizes_delivered": reads, "packets_returned": expected.len()}));
    }
}

/// Read the next packet through one of the transport's four reading operations.
/// 0 read_packet::<Raw>, 1 read_packet_with_ack::<Raw>, 2 write_packet_with_ack(Ack), 3 read_packet::<Ack>.
/// For 2 and 3 the packet is parsed as an acknowledge, so `Err` is a legitimate outcome; the bytes are then unknown (None).
fn read_via(transport: &mut PacketTransport<Term>, op: u8) -> Result<Polled<Result<Option<Vec<u8>>, String>>, String> {
    use zvt::packets;
    guarded(|| match op {
        0 => {
            let mut fut = Box::pin(transport.read_packet::<Raw>());
            match block_on(Pin::new(&mut fut)) {
                Polled::Ready(x) => Polled::Ready(x.map(|Raw(b)| Some(b)).map_err(|e| format!("{e:#}"))),
                Polled::Stuck => Polled::Stuck,
                Polled::Runaway => Polled::Runaway,
            }
        }
        1 => {
            let mut fut = Box::pin(transport.read_packet_with_ack::<Raw>());
            match block_on(Pin::new(&mut fut)) {
                Polled::Ready(x) => Polled::Ready(x.map(|Raw(b)| Some(b)).map_err(|e| format!("{e:#}"))),
                Polled::Stuck => Polled::Stuck,
                Polled::Runaway => Polled::Runaway,
            }
        }
        2 => {
            let mut fut = Box::pin(transport.write_packet_with_ack(&packets::Ack {}));
            match block_on(Pin::new(&mut fut)) {
                Polled::Ready(x) => Polled::Ready(x.map(|_| None).map_err(|e| format!("{e:#}"))),
                Polled::Stuck => Polled::Stuck,
                Polled::Runaway => Polled::Runaway,
            }
        }
        _ => {
            let mut fut = Box::pin(transport.read_packet::<zvt::io::Ack>());
            match block_on(Pin::new(&mut fut)) {
                Polled::Ready(x) => Polled::Ready(x.map(|_| None).map_err(|e| format!("{e:#}"))),
                Polled::Stuck => Polled::Stuck,
                Polled::Runaway => Polled::Runaway,
            }
        }
    })
}

const OP_NAMES: [&str; 4] = ["read_packet", "read_packet_with_ack", "write_packet_with_ack", "read_packet::<Ack>"];

/// Mixed-operation schedule: the k-th packet of the stream is consumed through operation `ops[k]`.
/// Whatever the operation and whether or not its parser likes the packet, it consumes exactly that packet.
fn run_mixed(r: &mut Report, stream: &[u8], eof_at: usize, chunking: Chunking, pend_between: bool, ops: &[u8], hashed: bool) {
    let data = &stream[..eof_at];
    let expected = expected_packets(data);
    let mut script = Script::new(vec![Entry { bytes: data.to_vec(), gate: 0 }]);
    script.eof = true;
    script.chunking = chunking.clone();
    script.pend_between = pend_between;
    let term = Term::new(script);
    term.0.lock().unwrap().record_payloads = true;
    let mut transport = PacketTransport { source: term.clone() };
    if hashed {
        let mut h = fnv(data) ^ (eof_at as u64) << 32 ^ fnv(ops).rotate_left(17);
        if let Chunking::Cuts(c) = &chunking {
            for x in c {
                h = h.wrapping_mul(31).wrapping_add(*x as u64);
            }
        }
        r.case(h, !data.is_empty());
    } else {
        r.case_enumerated(!data.is_empty());
    }
    let opnames: Vec<&str> = ops.iter().take(expected.len() + 1).map(|o| OP_NAMES[*o as usize & 3]).collect();
    let case = || json!({"kind": "transport-mixed", "stream": if data.len() <= 64 { hex(data) } else { format!("{} bytes, head {}", data.len(), hex(&data[..16])) }, "operations": opnames, "chunking": format!("{chunking:?}").chars().take(200).collect::<String>(), "pending_between_chunks": pend_between, "eof_after": eof_at, "expected_packets": expected.len()});
    let mut consumed = 0usize;
    let mut acks_due = 0usize;
    for (k, want) in expected.iter().enumerate() {
        let op = ops[k % ops.len()] & 3;
        let name = OP_NAMES[op as usize];
        let res = read_via(&mut transport, op);
        if op == 1 || op == 2 {
            acks_due += 1;
        }
        consumed += want.len();
        match res {
            Err(p) => {
                r.violation(&format!("{name} {}", panic_signature(&p)), &format!("packet {k}: {p}"), case());
                return;
            }
            Ok(Polled::Runaway) => {
                r.inconclusive("harness poll guard fired in C04");
                return;
            }
            Ok(Polled::Stuck) => {
                r.violation(&format!("{name} parks although the packet was completely delivered"), &format!("packet {k}"), case());
                return;
            }
            Ok(Polled::Ready(Ok(Some(b)))) => {
                if b != *want {
                    r.violation(&format!("{name} returns other bytes than the k-th packet"), &format!("packet {k}: got {} bytes {}, expected {} bytes {}", b.len(), hex(&b[..b.len().min(24)]), want.len(), hex(&want[..want.len().min(24)])), case());
                    return;
                }
            }
            Ok(Polled::Ready(Ok(None))) => {}
            Ok(Polled::Ready(Err(e))) => {
                if op < 2 {
                    r.violation(&format!("{name} fails although the packet was completely delivered"), &format!("packet {k}: Err({e})"), case());
                    return;
                }
            }
        }
        let cur = term.delivered();
        if cur != consumed {
            r.violation(&format!("{name} consumes a different number of bytes than header + announced body"), &format!("after packet {k} ({}) the stream cursor is at {cur}, the packets so far are {consumed} bytes", hex(&want[..want.len().min(12)])), case());
            return;
        }
    }
    let w = term.written_bytes();
    if w.len() != 3 * acks_due || w.chunks(3).any(|c| c != [0x80, 0, 0]) {
        r.violation("the acknowledges written by the *_with_ack operations are not one 80 00 00 per operation", &format!("written {} expected {} acknowledges", hex(&w[..w.len().min(30)]), acks_due), case());
        return;
    }
    // the stream now ends inside or before the next packet: every operation fails, none returns a packet or parks
    for attempt in 0..2 {
        let op = ops[(expected.len() + attempt) % ops.len()] & 3;
        let name = OP_NAMES[op as usize];
        match read_via(&mut transport, op) {
            Ok(Polled::Ready(Err(_))) => {}
            Ok(Polled::Ready(Ok(_))) => {
                r.violation(&format!("{name} returns a packet that was not completely delivered"), &format!("after {} complete packets, attempt {attempt}: Ok although only {} bytes remained before end of stream", expected.len(), data.len() - consumed), case());
                return;
            }
            Ok(Polled::Stuck) => {
                r.violation(&format!("{name} parks at end of stream instead of failing"), &format!("after {} complete packets", expected.len()), case());
                return;
            }
            Ok(Polled::Runaway) => {
                r.inconclusive("harness poll guard fired in C04");
                return;
            }
            Err(p) => {
                r.violation(&format!("{name} at end of stream {}", panic_signature(&p)), &p, case());
                return;
            }
        }
    }
}

/// Packets a terminal really sends in reply position (acknowledge, negative acknowledge, abort with and without body,
/// completion, status with body, intermediate status) plus header-shaped bodies.
fn reply_like_packets() -> Vec<Vec<u8>> {
    vec![
        vec![0x80, 0x00, 0x00],
        vec![0x84, 0x83, 0x00],
        vec![0x84, 0x9c, 0x00],
        vec![0x06, 0x1e, 0x01, 0x6c],
        vec![0x06, 0x1e, 0x00],
        vec![0x06, 0x0f, 0x00],
        vec![0x04, 0xff, 0x01, 0x0a],
        vec![0x04, 0x0f, 0x02, 0x27, 0x00],
        vec![0x80, 0x00, 0x03, 0x80, 0x00, 0x00],
        vec![0x80, 0x00, 0xff, 0x00, 0x00],
        vec![0x80, 0x00, 0xff, 0x02, 0x00, 0x80, 0x00],
        vec![0x06, 0xd3, 0x05, 0x80, 0x00, 0x00, 0x06, 0x0f],
        // extended length form in front of short bodies that look like packets themselves
        vec![0x04, 0x0f, 0xff, 0x03, 0x00, 0x06, 0x0f, 0x00],
        vec![0x06, 0x1e, 0xff, 0x04, 0x00, 0x6c, 0x80, 0x00, 0x00],
        vec![0x84, 0x9c, 0xff, 0x00, 0x00],
    ]
}

/// write_packet of a real command whose body is exactly `l` bytes; returns what was written.
fn write_body_of_len(l: usize) -> Result<Vec<u8>, String> {
    use zvt::packets;
    let term = Term::new(Script::new(vec![]));
    term.0.lock().unwrap().record_payloads = true;
    let mut transport = PacketTransport { source: term.clone() };
    let res = guarded(|| {
        if l == 0 {
            let mut fut = Box::pin(transport.write_packet(&packets::Ack {}));
            matches!(block_on(Pin::new(&mut fut)), Polled::Ready(Ok(())))
        } else {
            let text: String = (0..l - 1).map(|i| (b'a' + (i % 26) as u8) as char).collect();
            let msg = packets::PrintLine { attribute: (l % 251) as u8, text };
            let mut fut = Box::pin(transport.write_packet(&msg));
            matches!(block_on(Pin::new(&mut fut)), Polled::Ready(Ok(())))
        }
    });
    match res {
        Ok(true) => Ok(term.written_bytes()),
        Ok(false) => Err("write_packet did not complete".into()),
        Err(p) => Err(p),
    }
}

/// Down-scaled schedules for the Miri interpreter.
pub fn miri_slice(r: &mut Report, seed: u64, n: usize, shard: usize) -> usize {
    let mut rng = Rng::derive(seed, 0x0404 + shard as u64);
    let mut ops = 0;
    for l in [0usize, 1, 254, 255, 256, 300] {
        if let Ok(w) = write_body_of_len(l) {
            run_schedule(r, &w, w.len(), Chunking::Whole, false, true, false);
            run_schedule(r, &w, w.len(), Chunking::Cuts(vec![1, 2, 3, 4, 5]), true, true, false);
            run_schedule(r, &w, w.len() - 1, Chunking::Whole, false, true, false);
            ops += 3;
        }
    }
    while ops < n {
        let np = 1 + rng.below(3) as usize;
        let mut stream = vec![];
        for _ in 0..np {
            let l = rng.below(6) as usize;
            stream.extend([rng.byte(), rng.byte()]);
            if rng.chance(1, 4) {
                stream.extend([0xff, l as u8, 0]);
            } else {
                stream.push(l as u8);
            }
            stream.extend(rng.bytes(l));
        }
        let len = stream.len();
        let k = 1 + rng.below(4) as usize;
        let mut cuts: Vec<usize> = (0..k).map(|_| 1 + rng.below(len as u64 - 1) as usize).collect();
        cuts.sort();
        cuts.dedup();
        let eof_at = rng.below(len as u64 + 1) as usize;
        run_schedule(r, &stream, eof_at, Chunking::Cuts(cuts), rng.chance(1, 2), true, true);
        run_schedule(r, &stream, len, Chunking::Bytewise, true, true, true);
        // mixed reading operations over reply-shaped packets
        let pk = reply_like_packets();
        let mut s2 = vec![];
        for _ in 0..1 + rng.below(3) {
            s2.extend(rng.pick(&pk).clone());
        }
        let ops_sel: Vec<u8> = (0..5).map(|_| rng.below(4) as u8).collect();
        let n2 = s2.len();
        run_mixed(r, &s2, if rng.chance(2, 3) { n2 } else { rng.below(n2 as u64 + 1) as usize }, if rng.chance(1, 2) { Chunking::Whole } else { Chunking::Bytewise }, rng.chance(1, 2), &ops_sel, true);
        ops += 3;
    }
    ops
}

pub fn run(ctx: &Ctx) -> i32 {
    let mut report = ctx.report("C04", "exploration");
    report.rule = "(i) header agreement exhaustively for body lengths 0..65535: write_packet of a real command with exactly L body bytes, header compared with the independent formula, then read back through read_packet whole / with the header delivered byte-wise / split at every header offset; (ii) every sequence of 1-4 packets of total length <= 15 (quick: <= 13) incl. non-shortest FF headers: all 2^(n-1) partitions into read results x every end-of-stream position, with and without a Pending wake-up between chunks; (iii) sequences of up to 8 packets with bodies to 65535 (254/255/256 included): byte-wise, every single split point, random partitions, sampled end-of-stream positions. Checked after every return: the k-th packet's bytes, the stream cursor == sum of packet lengths, error (not a packet, not parking) when the stream ends inside a packet. (iv) mixed reading operations: the k-th packet consumed through read_packet / read_packet_with_ack / write_packet_with_ack / read_packet::<Ack> (whose parser may legitimately reject it) over terminal-reply-shaped packets (acknowledge, negative acknowledge, abort with body, completion, status, header-shaped bodies): every pair of packets x every pair of operations x whole/byte-wise/every cut/every end of stream, plus random histories of up to 7 packets; after every operation, successful or not, the cursor is at the packet boundary, the next operations return the following packets, and one 80 00 00 was written per *_with_ack operation. Non-trivial = non-empty stream; (i)/(ii)/(iv pairs) are duplicate-free enumerations, (iii)/(iv random) hashed.".into();
    report.exhaustive = Some(true);
    report.assumptions = vec!["independent framing rule: 3-byte header, or 5 bytes when the third byte is FF with a little-endian 16-bit length".into(), "RawPacket parser accepts any bytes so that framing is observed in isolation".into()];
    let threads = ctx.threads;
    let quick = ctx.quick();
    let seed = ctx.seed;
    // (i) header agreement, all body lengths
    sharded(&mut report, threads, |shard, r| {
        let mut l = shard;
        while l <= 65535 {
            r.case_enumerated(true);
            let case = json!({"kind": "header", "body_len": l});
            match write_body_of_len(l) {
                Err(p) => r.violation(&format!("write_packet {}", if p.contains(':') { panic_signature(&p) } else { p.clone() }), &format!("body length {l}: {p}"), case),
                Ok(w) => {
                    let expected_header: Vec<u8> = if l < 255 { vec![l as u8] } else { vec![0xff, l as u8, (l >> 8) as u8] };
                    let hl = 2 + expected_header.len();
                    if w.len() != hl + l || w[2..hl] != expected_header[..] {
                        r.violation("write_packet emits a different length header than the specification", &format!("body length {l}: header {} (total {} bytes), expected ..{} (total {})", hex(&w[..w.len().min(5)]), w.len(), hex(&expected_header), hl + l), case);
                    } else {
                        // read back: whole; header byte-wise; split at every header offset
                        run_schedule(r, &w, w.len(), Chunking::Whole, false, false, false);
                        run_schedule(r, &w, w.len(), Chunking::Cuts((1..=hl).collect()), true, false, false);
                        for cut in 1..=hl.min(w.len() - 1).max(1) {
                            if cut < w.len() {
                                run_schedule(r, &w, w.len(), Chunking::Cuts(vec![cut]), l % 2 == 0, false, false);
                            }
                        }
                        // two such packets back to back, and end of stream one byte short
                        if l % 64 == 0 || (250..=260).contains(&l) {
                            let mut two = w.clone();
                            two.extend(&w);
                            run_schedule(r, &two, two.len(), Chunking::Whole, false, false, false);
                            run_schedule(r, &two, two.len() - 1, Chunking::Whole, false, false, false);
                            run_schedule(r, &w, w.len() - 1, Chunking::Whole, false, false, false);
                        }
                        if (253..=257).contains(&l) {
                            r.note("header_switch_points_crossed", &l.to_string());
                        }
                    }
                }
            }
            l += threads;
        }
    });
    // (ii) all short sequences x all chunkings x all EOF positions
    let max_total = if quick { 13 } else { 15 };
    let mut seqs: Vec<Vec<u8>> = vec![];
    {
        // packets: (header form, body len): short form 3+l ; FF form 5+l (non-shortest but legal for the reader)
        fn rec(cur: &mut Vec<u8>, n: usize, max_total: usize, out: &mut Vec<Vec<u8>>) {
            if n > 0 {
                out.push(cur.clone());
            }
            if n == 4 {
                return;
            }
            for ff in [false, true] {
                let hl = if ff { 5 } else { 3 };
                for l in 0..=max_total {
                    if cur.len() + hl + l > max_total {
                        break;
                    }
                    let start = cur.len();
                    cur.push(0x04 + n as u8);
                    cur.push(0x0f ^ l as u8);
                    if ff {
                        cur.extend([0xff, l as u8, 0]);
                    } else {
                        cur.push(l as u8);
                    }
                    // bodies that look like headers (FF bytes inside) to tempt a confused reader
                    cur.extend((0..l).map(|i| if i % 2 == 0 { 0xff } else { 0x02 }));
                    rec(cur, n + 1, max_total, out);
                    cur.truncate(start);
                }
            }
        }
        rec(&mut vec![], 0, max_total, &mut seqs);
    }
    report.extra.insert("short_sequences".into(), json!(seqs.len()));
    sharded(&mut report, threads, |shard, r| {
        for (si, s) in seqs.iter().enumerate() {
            if si % threads != shard {
                continue;
            }
            let n = s.len();
            for mask in 0u32..(1 << (n - 1)) {
                let cuts: Vec<usize> = (1..n).filter(|i| mask & (1 << (i - 1)) != 0).collect();
                for eof_at in 0..=n {
                    run_schedule(r, s, eof_at, Chunking::Cuts(cuts.clone()), (mask as usize + eof_at) % 3 == 0, false, true);
                }
            }
        }
    });
    // (iii) longer sequences, large bodies
    let n_long = if quick { 300 } else { 20_000 };
    sharded(&mut report, threads, |shard, r| {
        let mut rng = Rng::derive(seed, 0xC04 + shard as u64);
        for _ in 0..n_long / threads {
            let np = 1 + rng.below(8) as usize;
            let mut stream = vec![];
            for _ in 0..np {
                let l = match rng.below(10) {
                    0 => 254,
                    1 => 255,
                    2 => 256,
                    3 => 65535,
                    4 => rng.below(65536) as usize,
                    _ => rng.below(40) as usize,
                };
                stream.extend([rng.byte(), rng.byte()]);
                if l >= 255 || rng.chance(1, 10) {
                    stream.extend([0xff, l as u8, (l >> 8) as u8]);
                } else {
                    stream.push(l as u8);
                }
                let fill = rng.byte();
                stream.extend(std::iter::repeat(fill).take(l));
            }
            let n = stream.len();
            run_schedule(r, &stream, n, Chunking::Whole, false, true, false);
            if n <= 600 {
                run_schedule(r, &stream, n, Chunking::Bytewise, rng.chance(1, 2), true, false);
                for cut in 1..n {
                    run_schedule(r, &stream, n, Chunking::Cuts(vec![cut]), false, true, false);
                }
                for eof_at in 0..n {
                    run_schedule(r, &stream, eof_at, Chunking::Whole, false, true, false);
                }
            }
            for _ in 0..8 {
                let k = 1 + rng.below(12) as usize;
                let mut cuts: Vec<usize> = (0..k).map(|_| 1 + rng.below(n as u64 - 1) as usize).collect();
                cuts.sort();
                cuts.dedup();
                let eof_at = if rng.chance(1, 2) { n } else { rng.below(n as u64 + 1) as usize };
                run_schedule(r, &stream, eof_at, Chunking::Cuts(cuts), rng.chance(1, 2), true, false);
            }
        }
    });
    // (iv) mixed reading operations: the k-th packet is consumed through read_packet, read_packet_with_ack,
    // write_packet_with_ack or read_packet::<Ack>; the packets are what a terminal sends in reply position
    let pk = reply_like_packets();
    report.extra.insert("mixed_reply_like_packets".into(), json!(pk.len()));
    sharded(&mut report, threads, |shard, r| {
        // every pair of packets x every pair of operations + a trailing plain read x {whole, byte-wise, every cut} x every end of stream
        let mut idx = 0usize;
        for a in 0..pk.len() {
            for b in 0..pk.len() {
                for oa in 0..4u8 {
                    for ob in 0..4u8 {
                        idx += 1;
                        if idx % threads != shard {
                            continue;
                        }
                        let mut s = pk[a].clone();
                        s.extend(&pk[b]);
                        s.extend([0x04, 0x0f, 0x01, 0x55]);
                        let n = s.len();
                        let ops = [oa, ob, 0];
                        run_mixed(r, &s, n, Chunking::Whole, false, &ops, false);
                        run_mixed(r, &s, n, Chunking::Bytewise, true, &ops, false);
                        if !quick || (a + b + oa as usize + ob as usize) % 4 == 0 {
                            for cut in 1..n {
                                run_mixed(r, &s, n, Chunking::Cuts(vec![cut]), cut % 2 == 0, &ops, false);
                            }
                            for eof_at in 0..n {
                                run_mixed(r, &s, eof_at, Chunking::Whole, false, &ops, false);
                            }
                        }
                    }
                }
            }
        }
        // random longer histories
        let mut rng = Rng::derive(seed, 0xC04_4000 + shard as u64);
        let n_mixed = if quick { 40_000 } else { 1_500_000 };
        for _ in 0..n_mixed / threads {
            let np = 1 + rng.below(7) as usize;
            let mut s = vec![];
            for _ in 0..np {
                if rng.chance(3, 4) {
                    s.extend(rng.pick(&pk).clone());
                } else {
                    let l = *rng.pick(&[0usize, 1, 2, 3, 5, 40, 254, 255, 256, 700]);
                    s.extend([rng.byte(), rng.byte()]);
                    if l >= 255 || rng.chance(1, 10) {
                        s.extend([0xff, l as u8, (l >> 8) as u8]);
                    } else {
                        s.push(l as u8);
                    }
                    let fill = *rng.pick(&[0x80u8, 0x00, 0xff, 0x06]);
                    s.extend(std::iter::repeat(fill).take(l));
                }
            }
            let ops: Vec<u8> = (0..np + 2).map(|_| rng.below(4) as u8).collect();
            let n = s.len();
            let chunking = match rng.below(3) {
                0 => Chunking::Whole,
                1 => Chunking::Bytewise,
                _ => {
                    let k = 1 + rng.below(8) as usize;
                    let mut cuts: Vec<usize> = (0..k).map(|_| 1 + rng.below(n as u64 - 1) as usize).collect();
                    cuts.sort();
                    cuts.dedup();
                    Chunking::Cuts(cuts)
                }
            };
            let eof_at = if rng.chance(2, 3) { n } else { rng.below(n as u64 + 1) as usize };
            run_mixed(r, &s, eof_at, chunking, rng.chance(1, 2), &ops, true);
        }
    });
    if !ctx.quick() && std::env::var("VERIF_NO_MIRI").is_err() {
        crate::c02::miri_tier(&mut report, "c04", 16, 60, ctx.seed);
    }
    report.finish()
}


/// C02's transport part: `read_packet` over hostile byte streams returns a packet or an error - it never panics,
/// whatever the header announces (every 16-bit extended length, every short length) and wherever the stream ends.
pub fn hostile_transport(r: &mut Report, shard: usize, nshards: usize, seed: u64, quick: bool) {
    let one = |r: &mut Report, stream: &[u8], chunking: Chunking, what: &str| {
        let mut script = Script::new(vec![Entry { bytes: stream.to_vec(), gate: 0 }]);
        script.eof = true;
        script.chunking = chunking;
        let term = Term::new(script);
        term.0.lock().unwrap().record_payloads = false;
        let mut transport = PacketTransport { source: term.clone() };
        r.case_enumerated(true);
        r.count("inputs.transport", 1);
        let expected = expected_packets(stream);
        let case = || json!({"kind": "transport-hostile", "stream_head": hex(&stream[..stream.len().min(16)]), "stream_len": stream.len(), "what": what});
        for k in 0..2usize {
            let op = ((stream.len() + k) % 4) as u8;
            // operations 0/1 (Raw parser): a completely delivered packet must be returned; 2/3 parse it as an acknowledgement
            match read_via(&mut transport, op) {
                Err(p) => {
                    r.violation(&format!("transport {}: {}", OP_NAMES[op as usize], panic_signature(&p)), &format!("{what}: {p}"), case());
                    return;
                }
                Ok(Polled::Runaway) => {
                    r.inconclusive("harness poll guard fired in the transport part of C02");
                    return;
                }
                Ok(Polled::Stuck) => {
                    r.violation("transport: read parks at end of stream", what, case());
                    return;
                }
                Ok(Polled::Ready(Ok(_))) if k >= expected.len() => {
                    r.violation("transport: a packet is returned although the stream ended inside it", what, case());
                    return;
                }
                Ok(Polled::Ready(Err(e))) if k < expected.len() && op < 2 => {
                    r.violation("transport: a completely delivered packet is rejected", &format!("{what}: {e}"), case());
                    return;
                }
                Ok(Polled::Ready(_)) => {}
            }
        }
    };
    // every extended header length: end of stream right behind the header, inside the body, and (boundary lengths and a
    // stride) the complete body
    let mut l = shard;
    while l <= 65535 {
        let header = [0x06u8, 0x0f, 0xff, l as u8, (l >> 8) as u8];
        one(r, &header, Chunking::Whole, &format!("extended header announcing {l} bytes, then end of stream"));
        one(r, &header[..4], Chunking::Whole, "extended header cut after the low length byte");
        if l > 0 {
            let mut s = header.to_vec();
            s.extend(std::iter::repeat(0x20).take((l - 1).min(if quick { 64 } else { 4096 })));
            one(r, &s, Chunking::Whole, &format!("extended header announcing {l} bytes, body cut short"));
        }
        if l < 8 || l >= 65528 || (250..=260).contains(&l) || l % (if quick { 4099 } else { 257 }) == 0 {
            let mut s = header.to_vec();
            s.extend(std::iter::repeat(0x20).take(l));
            one(r, &s, Chunking::Whole, &format!("extended header announcing {l} bytes, complete body"));
            one(r, &s, Chunking::Cuts(vec![1, 2, 3, 4, 5, 6]), &format!("extended header announcing {l} bytes, complete body, header byte-wise"));
            s.extend([0x80, 0x00, 0x00]);
            one(r, &s, Chunking::Whole, &format!("extended header announcing {l} bytes, complete body, another packet behind"));
        }
        l += nshards;
    }
    // every short header
    for ll in (0..=254usize).filter(|x| x % nshards == shard) {
        for cc in [0x06u8, 0x80, 0x84, 0x04, 0xff] {
            let mut s = vec![cc, 0x0f, ll as u8];
            one(r, &s, Chunking::Whole, "short header, then end of stream");
            s.extend(std::iter::repeat(0xff).take(ll));
            one(r, &s, Chunking::Bytewise, "short header, complete body");
            s.pop();
            one(r, &s, Chunking::Whole, "short header, body one byte short");
        }
    }
    // random streams
    let mut rng = Rng::derive(seed, 0xC02_7000 + shard as u64);
    for _ in 0..(if quick { 20_000 } else { 2_000_000 }) / nshards {
        let n = rng.below(12) as usize;
        let mut s = rng.bytes(n);
        if s.len() > 2 && rng.chance(1, 2) {
            s[2] = 0xff;
        }
        if s.len() > 4 && rng.chance(1, 2) {
            s[4] = *rng.pick(&[0xffu8, 0x00, 0x01, 0x7f, 0x80]);
            s[3] = *rng.pick(&[0xffu8, 0xfb, 0xfa, 0x00, 0x01]);
        }
        one(r, &s, if rng.chance(1, 2) { Chunking::Whole } else { Chunking::Bytewise }, "random bytes");
    }
}
