//! C08 — commit releases exactly the unused part of the pre-authorisation.

use crate::client::*;
use crate::sim::*;
use crate::Ctx;
use refcodec::cp437::CP437;
use refcodec::evidence::{sharded, Report};
use refcodec::prng::{fnv, Rng};
use refcodec::val::Val;
use serde_json::json;
use std::sync::Arc;

fn pick_pre(rng: &mut Rng) -> u64 {
    const MAX: u64 = 999_999_999_999;
    match rng.below(10) {
        0 => 0,
        1 => 1,
        2 => MAX,
        3 => {
            let k = rng.below(13) as u32;
            let p = 10u64.pow(k);
            (match rng.below(3) {
                0 => p.saturating_sub(1),
                1 => p,
                _ => p + 1,
            })
            .min(MAX)
        }
        4 => 2500,
        5 => rng.below(100_000),
        _ => rng.below(MAX + 1),
    }
}

fn pick_final(rng: &mut Rng, pre: u64) -> u64 {
    match rng.below(14) {
        0 => 0,
        1 => pre.saturating_sub(1),
        2 => pre,
        3 => pre.saturating_add(1),
        4 => (1u64 << 32) - 1,
        5 => 1u64 << 32,
        6 => (1u64 << 32) + 1,
        7 => u64::MAX,
        8 => u64::MAX - 1,
        9 => (1u64 << 63) + pre,
        10 => pre / 2,
        11 => rng.next(),
        _ => rng.below(pre.saturating_mul(2).max(10)),
    }
}

/// String literals of the code under test (1..8 characters), harvested at run time: tokens that coincide with
/// a constant of the implementation (a prefix, a separator, a sentinel) are the interesting ones.
pub fn dictionary() -> Vec<String> {
    let repo = std::env::var("VERIF_REPO_PATH").unwrap_or_else(|_| "/repo".into());
    let mut out: std::collections::BTreeSet<String> = ["AC", "ac", "A", "C", "0", "00", "000000", "FFFF", "ffff", " ", "\r", "\n", "-", "/"].iter().map(|s| s.to_string()).collect();
    for dir in ["zvt_feig_terminal/src", "zvt/src", "zvt/src/feig", "zvt_builder/src"] {
        let Ok(rd) = std::fs::read_dir(format!("{repo}/{dir}")) else { continue };
        for e in rd.flatten() {
            let Ok(text) = std::fs::read_to_string(e.path()) else { continue };
            // literals in code, not in comments or tests' long strings
            for line in text.lines().filter(|l| !l.trim_start().starts_with("//")) {
                let mut rest = line;
                while let Some(i) = rest.find('"') {
                    let after = &rest[i + 1..];
                    let Some(j) = after.find('"') else { break };
                    let lit = &after[..j];
                    if (1..=8).contains(&lit.chars().count()) && !lit.contains('\\') && !lit.contains('{') && lit.chars().all(|c| (c as u32) >= 0x20 && (c as u32) < 0x7f) {
                        out.insert(lit.to_string());
                    }
                    rest = &after[j + 1..];
                }
            }
        }
    }
    out.into_iter().take(400).collect()
}

fn pick_token_with(rng: &mut Rng, dict: &[String]) -> String {
    if !dict.is_empty() && rng.chance(1, 3) {
        let w = rng.pick(dict).clone();
        let tail = pick_token(rng);
        let tail: String = tail.chars().take(12).collect();
        let mut t = match rng.below(4) {
            0 => w,
            1 => format!("{w}{tail}"),
            2 => format!("{tail}{w}"),
            _ => format!("{w}{w}{tail}"),
        };
        // stay inside the domain: text ending in NUL cannot be carried by the format (trailing NUL is padding)
        while t.ends_with('\0') {
            t.pop();
            t.push('x');
        }
        return t;
    }
    pick_token(rng)
}

fn pick_token(rng: &mut Rng) -> String {
    let n = match rng.below(8) {
        0 => 0,
        1 => 1,
        2 => 200,
        3 => 127,
        4 => 128,
        _ => rng.below(60) as usize,
    };
    let mut s: String = (0..n).map(|_| if rng.chance(1, 4) { CP437[rng.below(256) as usize] } else { CP437[rng.range(0x20, 0x7e) as usize] }).collect();
    while s.ends_with('\0') {
        s.pop();
        s.push('x');
    }
    s
}

fn opt<T>(rng: &mut Rng, v: T) -> Option<T> {
    if rng.chance(1, 6) {
        None
    } else {
        Some(v)
    }
}

fn bcd_range(rng: &mut Rng, digits: u32) -> u64 {
    let max = 10u64.pow(digits) - 1;
    match rng.below(6) {
        0 => 0,
        1 => max,
        2 => 1,
        3 => 10u64.pow(rng.below(digits as u64) as u32),
        _ => rng.below(max + 1),
    }
}

fn reference_of(q: &Request) -> (Option<String>, Option<String>) {
    (q.val.path("tlv.bmp_data.bmp_prefix").and_then(|x| x.text()).map(|s| s.to_string()), q.val.path("tlv.bmp_data.bmp_data").and_then(|x| x.text()).map(|s| s.to_string()))
}

fn num(v: &Val, f: &str) -> Option<u128> {
    v.field(f).and_then(|x| x.num())
}

pub fn run(ctx: &Ctx) -> i32 {
    let mut report = ctx.report("C08", "exploration");
    report.rule = "scenarios begin(token) -> commit(token, final) (and interleaved pairs of transactions) against the simulated terminal: configured pre-authorisation amount over {0, 1, 10^k-1/10^k/10^k+1, 10^12-1, random}, final amount over {0, pre-1, pre, pre+1, 2^32-1, 2^32, 2^32+1, u64::MAX, u64::MAX-1, 2^63+pre, random}, currency 0..9999, tokens = CP437 text (any byte, no trailing NUL) of 0..200 characters, a third of them built around string literals harvested from the repository's own sources (a token equal to / starting with / ending in a constant of the implementation), first receipt number 1..9999, the terminal's status fields over their full BCD ranges or absent; in a third of the scenarios a card is read before / between the transaction calls, its status information carrying an amount, a receipt number and a maximum pre-authorisation amount (TLV 1F0B) below / at / above the configured amount; in a quarter of the scenarios the link fails once during the reservation (close/garbage/silence/NACK/reply-then-close at a random packet), so that the client re-sends it and the terminal issues a second receipt number; scenarios in which the terminal refuses a commit (any abort code, naming no / its own / another open / an unrelated receipt number or FFFF) and the caller goes on with the same and the other token: every later reversal still carries the receipt number issued for its own token. Oracle: the requests the terminal decodes with the reference codec: Reservation{amount=cfg, currency=cfg, reference 1F63=token}; PartialReversal{87=issued receipt, 04=max(pre-final,0) computed in u128, 49=cfg, reference 1F63=token} (payment type and reference prefix are recorded, not judged: the statement does not mention them); ledger balance reserved-released=min(pre,final); summary fields numerically equal to the status information of that commit (a third of the second commits are completed without any: no figures may be handed back then; a fifth of the commits receive two status informations, the earlier one with other figures: the last one counts). Non-trivial = scenario in which the commit reached the terminal; distinct by hash of (config, token, final, receipt, status fields).".into();
    report.exhaustive = Some(false);
    report.assumptions = vec!["string formatting of date/time/terminal id beyond numeric equality is not judged".into(), "64-bit usize (amounts are usize in the configuration)".into()];
    let schema = Arc::new(refcodec::zvt_schema());
    let n = ctx.by(6_000usize, 1_000_000usize);
    let threads = ctx.threads;
    let seed = ctx.seed;
    let dict = dictionary();
    report.extra.insert("token_dictionary_words_from_the_sources".into(), json!(dict.len()));
    sharded(&mut report, threads, |shard, r| {
        let mut rng = Rng::derive(seed, 0xC08 + shard as u64);
        for _ in 0..n / threads {
            one(r, &mut rng, &schema, &dict);
        }
        for _ in 0..n / threads / 4 {
            refused_commit(r, &mut rng, &schema, &dict);
        }
    });
    crate::also_in_release_build(&mut report, "C08", ctx);
    report.finish()
}

/// A commit the terminal refuses (abort of any code, with or without a receipt number of its own - another open
/// reservation's, an unrelated one, FFFF, the request's), followed by further calls for the same and the other token:
/// whatever goes out afterwards still carries, per token, the receipt number and reference of that token's reservation.
fn refused_commit(r: &mut Report, rng: &mut Rng, schema: &Arc<refcodec::layout::Schema>, dict: &[String]) {
    let pre = 1000 + rng.below(100_000);
    let two = rng.chance(1, 2);
    let cfg = ClientCfg { pre_amount: pre as usize, max_tx: if two { 2 } else { 1 }, ..ClientCfg::default() };
    let t1 = pick_token_with(rng, dict);
    let mut t2 = pick_token_with(rng, dict);
    if t2 == t1 {
        t2.push('2');
    }
    let mut sc = Scenario { cfg: cfg.clone(), ..Scenario::default() };
    sc.first_receipt = 1 + rng.below(9000);
    sc.calls.push(Call::Begin(t1.clone()));
    if two {
        sc.calls.push(Call::Begin(t2.clone()));
    }
    let code = rng.byte();
    let named = match rng.below(5) {
        0 => None,
        1 => Some(None),                        // the request's own number echoed
        2 => Some(Some(0xffffu64)),
        3 => Some(Some(sc.first_receipt + 1)), // the other open reservation's (if there is one)
        _ => Some(Some(1 + rng.below(9999))),
    };
    let refusal = match named {
        None => ExResult::Abort(code),
        Some(n) => ExResult::AbortWithReceipt(code, n),
    };
    let call = sc.calls.len() + 2;
    sc.plan.push(call, Cmd::PartialReversal, ExPlan { result: refusal, ..ExPlan::default() });
    sc.calls.push(Call::Commit(t1.clone(), rng.below(pre)));
    // afterwards: the same token again (commit and / or cancel), the other token
    let mut later: Vec<Call> = vec![];
    if rng.chance(2, 3) {
        later.push(Call::Commit(t1.clone(), rng.below(pre)));
    }
    if rng.chance(1, 2) {
        later.push(Call::Cancel(t1.clone()));
    }
    if two {
        later.push(if rng.chance(1, 2) { Call::Commit(t2.clone(), rng.below(pre)) } else { Call::Cancel(t2.clone()) });
    }
    if later.is_empty() {
        later.push(Call::Commit(t1.clone(), 1));
    }
    rng.shuffle(&mut later);
    sc.calls.extend(later);
    let tr = run_scenario(&sc, schema);
    let reached = tr.requests.iter().any(|q| q.cmd == Cmd::PartialReversal);
    r.case(fnv(format!("refused|{t1}|{t2}|{code}|{named:?}|{}|{:?}", sc.first_receipt, sc.calls.iter().map(|c| c.name()).collect::<Vec<_>>()).as_bytes()), reached);
    r.count("scenarios_with_a_refused_commit", 1);
    let case = || case_json(&sc, &tr);
    for c in &tr.calls {
        if let CallResult::Panic(p) = &c.result {
            r.violation(&format!("C08 {}: {}", c.call.as_ref().map(|x| x.name()).unwrap_or("new"), panic_sig(p)), &format!("call {} panicked: {p}", c.index), case());
            return;
        }
    }
    let issued = |t: &String| tr.ledger.iter().rev().find(|p| &p.token == t).map(|p| p.receipt);
    for q in tr.requests.iter() {
        match q.cmd {
            Cmd::PartialReversal => {
                let token = reference_of(q).1;
                let want = token.as_ref().and_then(|t| issued(t));
                let got = num(&q.val, "receipt_no").map(|x| x as u64);
                if token.is_none() || got != want {
                    r.violation("C08 commit: receipt number is not the one issued for the token (after a refused commit)", &format!("call {}: partial reversal for token {token:?} carries receipt {got:?}, the terminal issued {want:?} for it; the refusal named {named:?}", q.call), case());
                    return;
                }
            }
            Cmd::PreAuthReversal => {
                let Some(Some(Call::Cancel(t))) = tr.calls.iter().find(|c| c.index == q.call).map(|c| c.call.clone()) else { continue };
                let got = num(&q.val, "receipt_no").map(|x| x as u64);
                if got != issued(&t) {
                    r.violation("C08 cancel: receipt number is not the one issued for the token (after a refused commit)", &format!("call {}: reversal for token {t:?} carries receipt {got:?}, the terminal issued {:?} for it; the refusal named {named:?}", q.call, issued(&t)), case());
                    return;
                }
            }
            _ => {}
        }
    }
}

fn one(r: &mut Report, rng: &mut Rng, schema: &Arc<refcodec::layout::Schema>, dict: &[String]) {
    let pre = pick_pre(rng);
    let currency = match rng.below(6) {
        0 => 0,
        1 => 9999,
        2 => 978,
        3 => 826,
        _ => rng.below(10000),
    } as usize;
    let two = rng.chance(1, 4);
    let cfg = ClientCfg { pre_amount: pre as usize, currency, max_tx: if two { 2 } else { 1 }, password: rng.below(1_000_000) as usize, ..ClientCfg::default() };
    let t1 = pick_token_with(rng, dict);
    let mut t2 = pick_token_with(rng, dict);
    if t2 == t1 {
        t2.push('2');
    }
    let f1 = pick_final(rng, pre);
    let f2 = pick_final(rng, pre);
    let mut sc = Scenario { cfg: cfg.clone(), ..Scenario::default() };
    sc.first_receipt = match rng.below(5) {
        0 => 1,
        1 => 9999,
        2 => 9998,
        _ => 1 + rng.below(9999),
    };
    let status = |rng: &mut Rng| StatusFields {
        amount: { let v = bcd_range(rng, 12); opt(rng, v) },
        trace_number: { let v = bcd_range(rng, 6); opt(rng, v) },
        date: { let v = bcd_range(rng, 4); opt(rng, v) },
        time: { let v = bcd_range(rng, 6); opt(rng, v) },
        terminal_id: { let v = bcd_range(rng, 8); opt(rng, v) },
        currency: Some(currency as u64),
        card_name: None,
        result_code: None,
    };
    // calls: new(1), begin t1 (2), [begin t2 (3)], commit ... in either order
    let mut order: Vec<(String, u64)> = vec![(t1.clone(), f1)];
    // card reads before and between the transaction calls: whatever the card's status information carries (an amount,
    // a receipt number, a maximum pre-authorisation amount below / at / above the configured one) has no bearing
    let with_cards = rng.chance(1, 3);
    let read_card = |sc: &mut Scenario, rng: &mut Rng| {
        let call = sc.calls.len() + 2;
        let mut card = crate::history::rich_card(rng.byte(), pre, &[sc.first_receipt], sc.first_receipt);
        if rng.chance(1, 2) {
            card.max_pre_auth = Some(if pre > 0 { rng.below(pre) } else { 0 });
        }
        sc.plan.push(call, Cmd::ReadCard, ExPlan { card: Some(card), ..ExPlan::default() });
        sc.calls.push(Call::ReadCard);
    };
    if with_cards {
        read_card(&mut sc, rng);
    }
    let first_begin_call = sc.calls.len() + 2;
    sc.calls.push(Call::Begin(t1.clone()));
    if with_cards && rng.chance(1, 2) {
        read_card(&mut sc, rng);
    }
    if two {
        sc.calls.push(Call::Begin(t2.clone()));
        order.push((t2.clone(), f2));
        if rng.chance(1, 2) {
            order.reverse();
        }
    }
    let mut statuses = vec![];
    let mut r_two_statuses = 0u64;
    for (i, (t, f)) in order.iter().enumerate() {
        let call = sc.calls.len() + 2;
        let st = status(rng);
        let mut pre_pkts = match rng.below(4) {
            0 => vec![Pre::Intermediate { status: 0x0c, timeout: 0 }],
            1 => vec![Pre::PrintLine("Beleg".into())],
            _ => vec![],
        };
        // now and then the terminal sends two status informations within the one commit: an earlier one with other
        // figures (with or without a receipt number), then the final one (with or without) - the last one counts
        let no_status = i > 0 && rng.chance(1, 3);
        let two_statuses = !no_status && rng.chance(1, 5);
        let final_without_receipt = two_statuses && rng.chance(1, 2);
        if two_statuses {
            let other = status(rng);
            let rc = if rng.chance(2, 3) { Some(1 + rng.below(9999)) } else { None };
            pre_pkts.push(Pre::FullStatus(other, rc));
        }
        // now and then a later commit is completed by the terminal without any status information: there is nothing
        // to reproduce then, in particular not what an earlier commit reported
        sc.plan.push(call, Cmd::PartialReversal, ExPlan { pre: pre_pkts, status: Some(st.clone()), result: if no_status { ExResult::NoStatus } else { ExResult::Normal }, final_status_without_receipt: final_without_receipt, ..ExPlan::default() });
        if two_statuses {
            r_two_statuses += 1;
        }
        statuses.push(if no_status { None } else { Some(st) });
        sc.calls.push(Call::Commit(t.clone(), *f));
        let _ = i;
    }
    // sometimes the link fails once during the reservation (at a random packet of that call): the client re-sends it,
    // the terminal issues a new receipt number, and the commit must act on the receipt of the reservation that completed
    let faulted = rng.chance(1, 4);
    if faulted {
        let kind = *rng.pick(&[FaultKind::Close, FaultKind::Garbage, FaultKind::Silence, FaultKind::Nack, FaultKind::CloseAfter]);
        sc.plan.faults.push(FaultSpec { call: first_begin_call, at: At::Tx(rng.below(4) as usize), kind });
        sc.plan.push(first_begin_call, Cmd::Reservation, ExPlan { pre: vec![Pre::Intermediate { status: 0x0e, timeout: 0 }], ..ExPlan::default() });
    }
    let tr = run_scenario(&sc, schema);
    if faulted {
        r.count("scenarios_with_a_link_fault_during_the_reservation", 1);
    }
    if with_cards {
        r.count("scenarios_with_card_reads_in_between", 1);
    }
    r.count("commits_with_two_status_informations", r_two_statuses);
    let commits_reached = tr.requests.iter().filter(|q| q.cmd == Cmd::PartialReversal).count();
    r.case(fnv(format!("{cfg:?}|{t1}|{t2}|{f1}|{f2}|{}|{statuses:?}", sc.first_receipt).as_bytes()), commits_reached > 0);
    let case = || case_json(&sc, &tr);
    for c in &tr.calls {
        match &c.result {
            CallResult::Panic(p) => {
                r.violation(&format!("C08 {}: {}", c.call.as_ref().map(|x| x.name()).unwrap_or("new"), panic_sig(p)), &format!("call {} panicked: {p}", c.index), case());
                return;
            }
            CallResult::Hang => {
                r.violation("C08: call does not return", &format!("call {}", c.index), case());
                return;
            }
            _ => {}
        }
    }
    // reservations
    let reservations: Vec<&Request> = tr.requests.iter().filter(|q| q.cmd == Cmd::Reservation).collect();
    let begun: Vec<&String> = if two { vec![&t1, &t2] } else { vec![&t1] };
    if !faulted && reservations.len() != begun.len() {
        r.violation("C08: number of reservation requests differs from the number of begin calls", &format!("{} requests for {} calls", reservations.len(), begun.len()), case());
        return;
    }
    let begun_for: Vec<&String> = if faulted { reservations.iter().map(|q| if reference_of(q).1.as_ref() == Some(&t2) { &t2 } else { &t1 }).collect() } else { begun.clone() };
    for (q, t) in reservations.iter().zip(begun_for.iter()) {
        let problems = [
            (num(&q.val, "amount") != Some(pre as u128), "amount is not the configured pre-authorisation amount"),
            (num(&q.val, "currency") != Some(currency as u128), "currency is not the configured currency"),
            (reference_of(q).1 != Some((*t).clone()), "reference (E9 / 1F63) does not carry the caller's token"),
        ];
        if let Some((_, what)) = problems.iter().find(|p| p.0) {
            r.violation(&format!("C08 reservation: {what}"), &format!("request {} for token {t:?}, config amount {pre} currency {currency}", refcodec::hex(&q.bytes[..q.bytes.len().min(80)])), case());
            return;
        }
    }
    // partial reversals, in commit order
    let reversals: Vec<&Request> = tr.requests.iter().filter(|q| q.cmd == Cmd::PartialReversal).collect();
    if reversals.len() != order.len() {
        r.violation("C08: number of partial-reversal requests differs from the number of commits", &format!("{} requests for {} commits", reversals.len(), order.len()), case());
        return;
    }
    for (k, (q, (t, f))) in reversals.iter().zip(order.iter()).enumerate() {
        let issued = tr.ledger.iter().rev().find(|p| &p.token == t).map(|p| p.receipt);
        let want_amount: u128 = (pre as u128).saturating_sub(*f as u128);
        let problems = [
            (num(&q.val, "amount") != Some(want_amount), format!("released amount is not max(pre - final, 0): got {:?}, pre {pre}, final {f}, expected {want_amount}", num(&q.val, "amount"))),
            (num(&q.val, "currency") != Some(currency as u128), "currency is not the configured currency".to_string()),
            (num(&q.val, "receipt_no").map(|x| x as u64) != issued, format!("receipt number {:?} is not the one issued for the token ({issued:?})", num(&q.val, "receipt_no"))),
            (reference_of(q).1 != Some(t.clone()), "reference does not carry the token of that reservation".to_string()),
        ];
        if let Some((_, what)) = problems.iter().find(|p| p.0) {
            let sig = what.split(':').next().unwrap().to_string();
            r.violation(&format!("C08 commit: {sig}"), what, case());
            return;
        }
        // ledger balance
        if let Some(p) = tr.ledger.iter().rev().find(|p| &p.token == t) {
            let released = p.released.unwrap_or(0);
            if p.reserved.saturating_sub(released) != (pre as u128).min(*f as u128) {
                r.violation("C08 commit: ledger does not balance (reserved - released != min(pre, final))", &format!("reserved {} released {released} pre {pre} final {f}", p.reserved), case());
                return;
            }
        }
        // summary
        let ct = tr.calls.iter().filter(|c| matches!(c.call, Some(Call::Commit(..)))).nth(k).unwrap();
        let Some(st) = &statuses[k] else {
            // nothing was reported: whatever the call returns, it must not carry figures
            r.count("commits_without_status_information", 1);
            if let CallResult::Ok(OkVal::Summary { terminal_id, amount, trace_number, date, time }) = &ct.result {
                if amount.is_some() || trace_number.is_some() || date.is_some() || time.is_some() || terminal_id.is_some() {
                    r.violation("C08 summary: figures are handed back although the terminal reported none for this commit", &format!("summary {:?}; the terminal completed this commit without a status information (an earlier commit had reported {:?})", ct.result.short(), statuses.iter().flatten().next()), case());
                    return;
                }
            }
            continue;
        };
        match &ct.result {
            CallResult::Ok(OkVal::Summary { terminal_id, amount, trace_number, date, time }) => {
                let parse = |s: &Option<String>| s.as_ref().and_then(|x| x.parse::<u64>().ok());
                let problems = [
                    (*amount != st.amount, "amount"),
                    (*trace_number != st.trace_number, "trace number"),
                    (parse(date) != st.date || date.is_some() != st.date.is_some(), "date"),
                    (parse(time) != st.time || time.is_some() != st.time.is_some(), "time"),
                    (parse(terminal_id) != st.terminal_id || terminal_id.is_some() != st.terminal_id.is_some(), "terminal id"),
                ];
                if let Some((_, what)) = problems.iter().find(|p| p.0) {
                    r.violation(&format!("C08 summary: {what} differs from what the terminal reported"), &format!("summary {:?}, terminal reported {st:?}", ct.result.short()), case());
                    return;
                }
            }
            other => {
                r.violation("C08 commit: a commit the terminal completed does not return a summary", &format!("got {}", other.short()), case());
                return;
            }
        }
    }
    r.count("commits_checked", reversals.len() as u64);
    if f1 > pre {
        r.count("final_larger_than_preauthorisation", 1);
    }
    if r.wants_sample() {
        r.sample(json!({"pre": pre, "final": f1, "currency": currency, "token": t1, "first_receipt": sc.first_receipt, "partial_reversal_request": reversals.first().map(|q| refcodec::hex(&q.bytes[..q.bytes.len().min(64)])), "summary": tr.calls.last().map(|c| c.result.short())}));
    }
}
