//! C20 — a terminal abort always surfaces as an error identifying its result code.

use crate::client::*;
use crate::sim::*;
use crate::Ctx;
use refcodec::evidence::{sharded, Report};
use refcodec::prng::fnv;
use serde_json::json;
use std::sync::Arc;

/// Result codes of chapter 10 of the ZVT specification with a distinctive fragment of the
/// specification's message (typed from the specification, not from the repository).
pub const SPEC_MESSAGES: &[(u8, &str)] = &[
    (0x64, "card not readable"),
    (0x65, "card-data not present"),
    (0x66, "processing-error"),
    (0x67, "not permitted for ec- and maestro-cards"),
    (0x68, "not permitted for credit- and tank-cards"),
    (0x6a, "turnover-file full"),
    (0x6b, "function deactivated"),
    (0x6c, "abort via timeout or abort-key"),
    (0x6e, "card in blocked-list"),
    (0x6f, "wrong currency"),
    (0x71, "credit not sufficient"),
    (0x72, "chip error"),
    (0x73, "card-data incorrect"),
    (0x74, "dukpt engine exhausted"),
    (0x75, "text not authentic"),
    (0x76, "pan not in white list"),
    (0x77, "end-of-day batch not possible"),
    (0x78, "card expired"),
    (0x79, "card not yet valid"),
    (0x7a, "card unknown"),
    (0x7b, "fallback to magnetic stripe for girocard not possible"),
    (0x7c, "used for non girocard cards"),
    (0x7d, "communication error"),
    (0x7e, "debit advice possible"),
    (0x83, "function not possible"),
    (0x85, "key missing"),
    (0x89, "pin-pad defective"),
    (0x9a, "zvt protocol error"),
    (0x9b, "error from dial-up"),
    (0x9c, "please wait"),
    (0xa0, "receiver not ready"),
    (0xa1, "remote station does not respond"),
    (0xa3, "no connection"),
    (0xa4, "submission of geldkarte not possible"),
    (0xa5, "pci-dss"),
    (0xb1, "memory full"),
    (0xb2, "merchant-journal full"),
    (0xb4, "already reversed"),
    (0xb5, "reversal not possible"),
    (0xb7, "pre-authorization incorrect"),
    (0xb8, "error pre-authorization"),
    (0xbf, "voltage supply to low"),
    (0xc0, "card locking mechanism defective"),
    (0xc1, "merchant-card locked"),
    (0xc2, "diagnosis required"),
    (0xc3, "maximum amount exceeded"),
    (0xc4, "card-profile invalid"),
    (0xc5, "payment method not supported"),
    (0xc6, "currency not applicable"),
    (0xc8, "amount too small"),
    (0xc9, "transaction-amount too small"),
    (0xcb, "only allowed in euro"),
    (0xcc, "printer not ready"),
    (0xcd, "cashback not possible"),
    (0xd2, "not permitted for service-cards"),
    (0xdc, "card inserted"),
    (0xdd, "error during card-eject"),
    (0xde, "error during card-insertion"),
    (0xe0, "remote-maintenance activated"),
    (0xe2, "card-reader does not answer"),
    (0xe3, "shutter closed"),
    (0xe4, "terminal activation required"),
    (0xe7, "one goods-group not found"),
    (0xe8, "no goods-groups-table loaded"),
    (0xe9, "restriction-code not permitted"),
    (0xea, "card-code not permitted"),
    (0xeb, "function not executable"),
    (0xec, "pin-processing not possible"),
    (0xed, "pin-pad defective"),
    (0xf0, "open end-of-day batch present"),
    (0xf1, "ec-cash/maestro offline error"),
    (0xf5, "opt-error"),
    (0xf6, "opt-data not available"),
    (0xfa, "error transmitting offline-transactions"),
    (0xfb, "turnover data-set defective"),
    (0xfc, "necessary device not present or defective"),
    (0xfd, "baudrate not supported"),
    (0xfe, "register unknown"),
    (0xff, "system error"),
];

/// Does the error identify the result code c?
fn identifies(result: &CallResult, c: u8) -> bool {
    let CallResult::Err { class, text } = result else { return false };
    if *class == ErrClass::Aborted(c) {
        return true;
    }
    if matches!(class, ErrClass::Aborted(_)) {
        return false; // names another code
    }
    let lower = text.to_lowercase();
    if let Some((_, frag)) = SPEC_MESSAGES.iter().find(|m| m.0 == c) {
        if lower.contains(frag) {
            return true;
        }
    }
    // the code as a numeric token: 0x6C / 6c / 108
    let tokens: Vec<String> = lower.split(|ch: char| !ch.is_ascii_alphanumeric()).map(|s| s.to_string()).collect();
    tokens.iter().any(|t| *t == format!("0x{c:x}") || *t == format!("{c:x}") && t.len() == 2 || *t == c.to_string())
}

#[derive(Clone, Copy, Debug, PartialEq, Eq, Hash, PartialOrd, Ord)]
enum Site {
    ReadCard,
    Begin,
    Commit,
    Cancel,
    ConfigureSystemInfo,
    ConfigureSetTerminalId,
    ConfigureInitialization,
    ConfigureDanglingReversal,
    ConfigureEndOfDay,
    CommitEndOfDay,
    CancelEndOfDay,
    CommitDanglingReversal,
    /// commit / cancel of one transaction while another one stays open (transactions_max_num 2)
    CommitOtherOpen,
    CancelOtherOpen,
}

const SITES: [Site; 14] = [
    Site::ReadCard,
    Site::Begin,
    Site::Commit,
    Site::Cancel,
    Site::ConfigureSystemInfo,
    Site::ConfigureSetTerminalId,
    Site::ConfigureInitialization,
    Site::ConfigureDanglingReversal,
    Site::ConfigureEndOfDay,
    Site::CommitEndOfDay,
    Site::CancelEndOfDay,
    Site::CommitDanglingReversal,
    Site::CommitOtherOpen,
    Site::CancelOtherOpen,
];

/// Packets the terminal sends before the abort (position of the abort within the reply script).
fn pre_for(site: Site, pos: usize) -> Vec<Pre> {
    let inter = |n: usize| -> Vec<Pre> { (0..n).map(|i| Pre::Intermediate { status: 0x0e + i as u8, timeout: 0 }).collect() };
    let has_status = matches!(site, Site::ReadCard | Site::Begin | Site::Commit | Site::Cancel | Site::CommitOtherOpen | Site::CancelOtherOpen | Site::ConfigureEndOfDay | Site::CommitEndOfDay | Site::CancelEndOfDay | Site::ConfigureDanglingReversal | Site::CommitDanglingReversal);
    let has_inter = !matches!(site, Site::ConfigureSystemInfo | Site::ConfigureSetTerminalId);
    match pos {
        0 => vec![],
        1..=3 if has_inter => inter(pos),
        4 if has_status && site != Site::ReadCard => {
            // after a status information (for a reservation: one that already carries a receipt number)
            if site == Site::Begin {
                vec![Pre::Intermediate { status: 0x0e, timeout: 0 }, Pre::ReceiptStatus(4711)]
            } else {
                vec![Pre::PlainStatus]
            }
        }
        // after a status information that carries a result code of its own (BMP 27) and no receipt number: the code
        // of the operation is the abort's, not the status information's
        5..=8 if has_status && site != Site::ReadCard => {
            let x = [0x05u8, 0xfc, 0x64, 0x6c][pos - 5];
            vec![Pre::Intermediate { status: 0x0e, timeout: 0 }, Pre::StatusWithResult(x)]
        }
        // one intermediate status with the value under test
        11 if has_inter => vec![Pre::Intermediate { status: STATUS_BYTE.with(|s| s.get()), timeout: 0 }],
        _ => vec![],
    }
}

pub fn run(ctx: &Ctx) -> i32 {
    let mut report = ctx.report("C20", "exploration");
    report.rule = "all 256 result codes x 14 abort sites {commit / cancel of one transaction while another one stays open, read_card, begin (reservation), commit (partial reversal), cancel (pre-auth reversal), configure: system info / set terminal id / initialization / reversal of a dangling pre-authorisation / end-of-day, end-of-day inside commit and inside cancel, reversal of a dangling pre-authorisation inside commit} x position of the abort in the reply script {first reply, after 1, 2, 3 intermediate statuses, after a status information (for a reservation: one already carrying a receipt number), after a receipt-less status information whose own result code (BMP 27) is 05 / FC / 64 / 6C, and (end-of-day / partial-reversal / pre-auth-reversal sites) the abort in its long form carrying a receipt number 4711 / FFFF}; and every (code, site) again with a connection fault (close / garbage) at the acknowledgement of the first attempt of that exchange, so that the abort answers the client's retry; for read_card / begin / commit / cancel every one of the 256 intermediate status values in front of every code; every (code, site) at four positions with a slow terminal that takes 0.4 / 0.65 of the client's measured per-packet wait (24 s / 39 s of 60 s) for every reply of the exchange (the abort arrives up to four minutes after the request); and for read_card every code again arriving only after the terminal's own card time-out (read_card_timeout in {0,1,15,253,254,255} s plus 0.1-1.9 s, inside the client's grace period). Oracle: the call fails and the error identifies c (ZVTError::Aborted(c) in the chain, or the text contains the specification's message for c from an independently typed table, or c as a hex/decimal token); exactly three translations: read_card+6C -> NoCardPresented, reservation+FC -> NeedsPinEntry, end-of-day+A0 -> tolerated (the caller's own result stands). Duplicate-free enumeration; non-trivial = every case.".into();
    report.exhaustive = Some(true);
    report.assumptions = vec!["the pending query is answered by the terminal with an abort-shaped packet by protocol design (2.10.1) and is not an abort site; aborts during the handshake are connection failures (C09)".into()];
    assert_eq!(SPEC_MESSAGES.len(), 79);
    let schema = Arc::new(refcodec::zvt_schema());
    let threads = ctx.threads;
    let positions: Vec<usize> = vec![0, 1, 2, 3, 4, 5, 6, 7, 8, 9, 10];
    sharded(&mut report, threads, |shard, r| {
        let mut k = 0usize;
        for site in SITES {
            for code in 0..=255u8 {
                for &pos in &positions {
                    k += 1;
                    if k % threads != shard {
                        continue;
                    }
                    one(r, &schema, site, code, pos, None);
                    if pos == 0 {
                        one(r, &schema, site, code, pos, Some(FaultKind::Close));
                        one(r, &schema, site, code, pos, Some(FaultKind::Garbage));
                    }
                }
            }
        }
    });
    // every intermediate status value x every result code: the code of the operation is the abort's, whatever the terminal
    // displayed before
    sharded(&mut report, threads, |shard, r| {
        let mut k = 0usize;
        for site in [Site::ReadCard, Site::Begin, Site::Commit, Site::Cancel] {
            for status in 0..=255u8 {
                for code in 0..=255u8 {
                    k += 1;
                    if k % threads != shard {
                        continue;
                    }
                    one_status(r, &schema, site, code, status);
                }
            }
        }
    });
    // a slow terminal: every reply of the aborted exchange takes 0.4 / 0.65 of the per-packet wait the client is observed to have (24 s / 39 s), so that the
    // abort arrives one and a half to four minutes after the request - the code is still the operation's result
    let w_ms = crate::faults::measured_packet_wait_ms(&schema).unwrap_or(60_000);
    report.extra.insert("measured_per_packet_wait_ms".into(), json!(w_ms));
    // 24 s / 39 s with the 60 s of the pinned tree
    let (short, long) = ((w_ms * 2 / 5000).max(1) as u32, (w_ms * 13 / 20000).max(1) as u32);
    sharded(&mut report, threads, |shard, r| {
        let mut k = 0usize;
        for site in SITES {
            for code in 0..=255u8 {
                for (pos, secs) in [(0usize, long), (2, short), (3, long), (4, short)] {
                    k += 1;
                    if k % threads != shard {
                        continue;
                    }
                    SLOW_S.with(|s| s.set(secs));
                    one(r, &schema, site, code, pos, None);
                    SLOW_S.with(|s| s.set(0));
                }
            }
        }
    });
    // read_card: the abort arrives only after the terminal's own card time-out has run out (every configured
    // time-out class incl. the largest), still inside the client's grace period
    sharded(&mut report, threads, |shard, r| {
        let mut k = 0usize;
        // how late "a little later" is scales with the grace the client is observed to give (2 s in the pinned tree:
        // 900 / 1500 / 1900 / 900 / 100 / 1500 ms)
        let g = crate::faults::measured_read_card_grace_ms(&schema);
        for (rc, extra_ms) in [(255u8, g * 9 / 20), (254, g * 3 / 4), (253, g * 19 / 20), (0, g * 9 / 20), (15, g / 20), (1, g * 3 / 4)] {
            for code in 0..=255u8 {
                k += 1;
                if k % threads != shard {
                    continue;
                }
                one_at(r, &schema, Site::ReadCard, code, 0, None, Some((rc, extra_ms)));
            }
        }
    });
    report.extra.insert("sites".into(), json!(SITES.iter().map(|s| format!("{s:?}")).collect::<Vec<_>>()));
    report.extra.insert("codes".into(), json!(256));
    crate::also_in_release_build(&mut report, "C20", ctx);
    report.finish()
}

fn one(r: &mut Report, schema: &Arc<refcodec::layout::Schema>, site: Site, code: u8, pos: usize, prior_fault: Option<FaultKind>) {
    one_at(r, schema, site, code, pos, prior_fault, None)
}

thread_local! {
    /// intermediate status byte used by position 11 (see `pre_for`)
    static STATUS_BYTE: std::cell::Cell<u8> = const { std::cell::Cell::new(0) };
}

thread_local! {
    /// seconds the terminal takes for every packet of the exchange under test (0: answers at once)
    static SLOW_S: std::cell::Cell<u32> = const { std::cell::Cell::new(0) };
}

fn one_status(r: &mut Report, schema: &Arc<refcodec::layout::Schema>, site: Site, code: u8, status: u8) {
    STATUS_BYTE.with(|s| s.set(status));
    one_at(r, schema, site, code, 11, None, None)
}

/// `late`: (read_card_timeout, extra ms) - read_card only: the terminal reports the abort that long after the request,
/// i.e. just after its own card time-out has run out (inside the client's documented grace of 2 s).
fn one_at(r: &mut Report, schema: &Arc<refcodec::layout::Schema>, site: Site, code: u8, pos: usize, prior_fault: Option<FaultKind>, late: Option<(u8, u64)>) {
    let mut sc = Scenario::default();
    let pre = pre_for(site, pos);
    if pre.is_empty() && pos != 0 && !(pos == 9 || pos == 10) {
        return; // position not applicable to this site
    }
    let mut abort = ExPlan { pre, result: ExResult::Abort(code), ..ExPlan::default() };
    // positions 9 / 10 (end-of-day and reversal sites): the abort in its long form, carrying a receipt number (BMP 87:
    // a pre-authorisation the terminal names / FFFF) - the code is still the operation's result
    if pos == 9 || pos == 10 {
        if !matches!(site, Site::ConfigureEndOfDay | Site::CommitEndOfDay | Site::CancelEndOfDay | Site::Commit | Site::Cancel | Site::CommitOtherOpen | Site::CancelOtherOpen | Site::ConfigureDanglingReversal | Site::CommitDanglingReversal) {
            return;
        }
        abort = ExPlan { pre: vec![], result: ExResult::AbortWithReceipt(code, Some(if pos == 9 { 4711 } else { 0xffff })), ..ExPlan::default() };
    }
    if let Some((rc, extra_ms)) = late {
        sc.cfg.read_card_timeout = rc;
        abort.silent_ms = rc as u64 * 1000 + extra_ms;
        r.count("cases_with_the_abort_arriving_after_the_terminals_own_card_timeout", 1);
    }
    // call under test is always the last one
    let (calls, call_idx): (Vec<Call>, usize) = match site {
        Site::ReadCard => (vec![Call::ReadCard], 2),
        Site::Begin => (vec![Call::Begin("tok".into())], 2),
        Site::Commit | Site::CommitEndOfDay | Site::CommitDanglingReversal => (vec![Call::Begin("tok".into()), Call::Commit("tok".into(), 1200)], 3),
        Site::Cancel | Site::CancelEndOfDay => (vec![Call::Begin("tok".into()), Call::Cancel("tok".into())], 3),
        Site::CommitOtherOpen => (vec![Call::Begin("tok".into()), Call::Begin("other".into()), Call::Commit("tok".into(), 1200)], 4),
        Site::CancelOtherOpen => (vec![Call::Begin("tok".into()), Call::Begin("other".into()), Call::Cancel("tok".into())], 4),
        _ => (vec![Call::Configure], 2),
    };
    sc.calls = calls;
    match site {
        Site::ReadCard => sc.plan.push(call_idx, Cmd::ReadCard, abort),
        Site::Begin => sc.plan.push(call_idx, Cmd::Reservation, abort),
        Site::Commit => sc.plan.push(call_idx, Cmd::PartialReversal, abort),
        Site::Cancel => sc.plan.push(call_idx, Cmd::PreAuthReversal, abort),
        Site::CommitOtherOpen => {
            sc.cfg.max_tx = 2;
            sc.plan.push(call_idx, Cmd::PartialReversal, abort)
        }
        Site::CancelOtherOpen => {
            sc.cfg.max_tx = 2;
            sc.plan.push(call_idx, Cmd::PreAuthReversal, abort)
        }
        Site::ConfigureSystemInfo => sc.plan.push(call_idx, Cmd::SystemInfo, abort),
        Site::ConfigureSetTerminalId => {
            sc.sim_terminal_id = "11112222".into(); // differs from the configured one: the client must set it
            sc.plan.push(call_idx, Cmd::SetTerminalId, abort)
        }
        Site::ConfigureInitialization => sc.plan.push(call_idx, Cmd::Initialization, abort),
        Site::ConfigureDanglingReversal | Site::CommitDanglingReversal => {
            sc.plan.push(call_idx, Cmd::PendingQuery, ExPlan { pending_override: Some(Some(77)), ..ExPlan::default() });
            // cancel's own exchange is a PreAuthReversal too; here the site is the reversal of the dangling receipt
            sc.plan.push(call_idx, Cmd::PreAuthReversal, abort)
        }
        Site::ConfigureEndOfDay | Site::CommitEndOfDay | Site::CancelEndOfDay => sc.plan.push(call_idx, Cmd::EndOfDay, abort),
    }
    if matches!(site, Site::ConfigureSetTerminalId) {
        // Feig::new (call 1) also tries to set the terminal id: let it pass
    }
    let cmd = match site {
        Site::ReadCard => Cmd::ReadCard,
        Site::Begin => Cmd::Reservation,
        Site::Commit | Site::CommitOtherOpen => Cmd::PartialReversal,
        Site::Cancel | Site::CancelOtherOpen | Site::ConfigureDanglingReversal | Site::CommitDanglingReversal => Cmd::PreAuthReversal,
        Site::ConfigureSystemInfo => Cmd::SystemInfo,
        Site::ConfigureSetTerminalId => Cmd::SetTerminalId,
        Site::ConfigureInitialization => Cmd::Initialization,
        Site::ConfigureEndOfDay | Site::CommitEndOfDay | Site::CancelEndOfDay => Cmd::EndOfDay,
    };
    let slow = SLOW_S.with(|s| s.get());
    if slow > 0 {
        // a slow terminal: it takes `slow` seconds for every reply of this exchange (well inside the per-packet wait),
        // so the abort arrives minutes after the request
        // (the acknowledgement is not delayed: the client waits for acknowledgement + first reply as one item)
        for reply in 1..9 {
            sc.plan.faults.push(FaultSpec { call: call_idx, at: At::Point(cmd, reply), kind: FaultKind::Pause(slow) });
        }
        if site == Site::ReadCard {
            sc.cfg.read_card_timeout = 120; // the card wait is the per-packet wait of this exchange
        }
        r.count("cases_with_a_slow_terminal", 1);
    }
    if let Some(kind) = prior_fault {
        // the first attempt of the exchange suffers a connection fault at its acknowledgement; the retry is aborted.
        // every exchange plan of the call is queued twice so that the retry finds the same script.
        if let Some(q) = sc.plan.ex.get_mut(&(call_idx, cmd)) {
            if let Some(last) = q.back().cloned() {
                if cmd == Cmd::SystemInfo {
                    // the re-connection's handshake runs a system-info exchange of its own in between
                    q.push_back(ExPlan::default());
                }
                q.push_back(last);
            }
        }
        sc.plan.faults.push(FaultSpec { call: call_idx, at: At::PointOnce(cmd, 0), kind });
    }
    let tr = run_scenario(&sc, schema);
    r.case_enumerated(true);
    if prior_fault.is_some() {
        r.count("cases_with_a_connection_fault_before_the_abort", 1);
    }
    let Some(ct) = tr.calls.iter().find(|c| c.index == call_idx) else {
        r.inconclusive(&format!("the call under test was not executed for {site:?}"));
        return;
    };
    // was the abort actually delivered at this site?
    let delivered = tr.log.iter().any(|e| e.call == call_idx && e.dir == Dir::Tx && e.bytes.len() >= 4 && e.bytes[0] == 0x06 && e.bytes[1] == 0x1e && e.bytes[3] == code);
    if !delivered {
        if let Some((rc, extra_ms)) = late {
            // the terminal reports its own card time-out inside the client's grace period; a client that has given up
            // by then loses the code (and with 6C the 'no card' meaning)
            let mut c = case_json(&sc, &tr);
            c["site"] = json!("ReadCard");
            c["code"] = json!(format!("{code:02x}"));
            c["abort_arrives_after"] = json!(format!("read_card_timeout {rc} s + {extra_ms} ms"));
            r.violation("C20 ReadCard: the client has given up before the terminal reports the end of its own card time-out", &format!("read_card_timeout {rc}: abort {code:02x} was due {extra_ms} ms after the terminal's time-out, the call returned {} after {} virtual ms ({} ReadCard requests)", ct.result.short(), ct.virtual_ms, tr.requests.iter().filter(|q| q.cmd == Cmd::ReadCard).count()), c);
            return;
        }
        r.inconclusive(&format!("the abort {code:02x} was not delivered at site {site:?} (position {pos})"));
        return;
    }
    r.note("sites_reached", &format!("{site:?}"));
    r.note("positions_reached", &pos.to_string());
    let case = || {
        let mut c = case_json(&sc, &tr);
        c["site"] = json!(format!("{site:?}"));
        c["code"] = json!(format!("{code:02x}"));
        c["position"] = json!(pos);
        c["prior_fault"] = json!(prior_fault.map(|k| format!("{k:?}")));
        c["abort_arrives_after"] = json!(late.map(|(rc, ms)| format!("read_card_timeout {rc} s + {ms} ms")));
        c
    };
    let eod_site = matches!(site, Site::ConfigureEndOfDay | Site::CommitEndOfDay | Site::CancelEndOfDay);
    let verdict: Result<(), String> = match (&ct.result, code) {
        (CallResult::Panic(p), _) => Err(format!("panics: {}", panic_sig(p))),
        (CallResult::Hang, _) => Err("does not return".into()),
        (res, 0xa0) if eod_site => {
            if res.is_ok() {
                r.count("translations.eod_a0_tolerated", 1);
                Ok(())
            } else {
                Err("'receiver not ready' (A0) at end-of-day is not tolerated".into())
            }
        }
        (CallResult::Err { class: ErrClass::NoCardPresented, .. }, 0x6c) if site == Site::ReadCard => {
            r.count("translations.read_card_6c_no_card", 1);
            Ok(())
        }
        (_, 0x6c) if site == Site::ReadCard => Err("time-out (6C) while reading a card is not translated to NoCardPresented".into()),
        (CallResult::Err { class: ErrClass::NeedsPinEntry, .. }, 0xfc) if site == Site::Begin => {
            r.count("translations.reservation_fc_needs_pin", 1);
            Ok(())
        }
        (_, 0xfc) if site == Site::Begin => Err("'device missing' (FC) during a reservation is not translated to NeedsPinEntry".into()),
        (CallResult::Ok(_), _) => Err("an aborted operation is reported as success".into()),
        (res @ CallResult::Err { class, .. }, c) => {
            if matches!(class, ErrClass::NoCardPresented | ErrClass::NeedsPinEntry) {
                Err(format!("abort is translated to {class:?} although the code is not the documented one"))
            } else if identifies(res, c) {
                Ok(())
            } else {
                Err("the error does not identify the result code".into())
            }
        }
    };
    match verdict {
        Ok(()) => {
            if r.wants_sample() && code % 37 == 5 {
                r.sample(json!({"site": format!("{site:?}"), "code": format!("{code:02x}"), "position": pos, "result": ct.result.short()}));
            }
        }
        Err(why) => r.violation(&format!("C20 {site:?}: {why}"), &format!("abort {code:02x} at position {pos}: {}", ct.result.short()), case()),
    }
    let _ = fnv;
}
