//! C17 — scalar, text and tag encodings round-trip over their whole domain.

use crate::sut::{guarded, panic_signature};
use crate::{sharded, Ctx};
use refcodec::codec::{bcd_bytes, cp437_encode, tag_bytes, Codec, RefErr};
use refcodec::cp437::CP437;
use refcodec::evidence::Report;
use refcodec::hex;
use refcodec::prng::{fnv, Rng};
use serde_json::json;
use zvt::packets::PartialReversalReceiptNo;
use zvt_builder::encoding::{Bcd, BigEndian, Default as Dflt, Encoding, Hex};
use zvt_builder::Tag;

fn viol(r: &mut Report, sig: &str, what: String, case: serde_json::Value) {
    r.violation(sig, &what, case);
}

/// Generic check of one integer value under one encoding.
macro_rules! int_checks {
    ($fname:ident, $ty:ty, $tyname:literal) => {
        fn $fname(r: &mut Report, v: $ty, hashed: bool) {
            let bytes_le: Vec<u8> = (0..std::mem::size_of::<$ty>()).map(|i| ((v as u128) >> (8 * i)) as u8).collect();
            let mut bytes_be = bytes_le.clone();
            bytes_be.reverse();
            for (name, expected, enc, dec) in [
                (
                    "Default",
                    &bytes_le,
                    (|x: &$ty| <Dflt as Encoding<$ty>>::encode(x)) as fn(&$ty) -> Vec<u8>,
                    (|b: &[u8]| <Dflt as Encoding<$ty>>::decode(b).map(|(v, r)| (v, r.len())).map_err(|e| format!("{e:?}"))) as fn(&[u8]) -> Result<($ty, usize), String>,
                ),
                (
                    "BigEndian",
                    &bytes_be,
                    (|x: &$ty| <BigEndian as Encoding<$ty>>::encode(x)) as fn(&$ty) -> Vec<u8>,
                    (|b: &[u8]| <BigEndian as Encoding<$ty>>::decode(b).map(|(v, r)| (v, r.len())).map_err(|e| format!("{e:?}"))) as fn(&[u8]) -> Result<($ty, usize), String>,
                ),
                (
                    "Bcd",
                    &bcd_bytes(v as u128),
                    (|x: &$ty| <Bcd as Encoding<$ty>>::encode(x)) as fn(&$ty) -> Vec<u8>,
                    (|b: &[u8]| <Bcd as Encoding<$ty>>::decode(b).map(|(v, r)| (v, r.len())).map_err(|e| format!("{e:?}"))) as fn(&[u8]) -> Result<($ty, usize), String>,
                ),
            ] {
                if hashed {
                    r.case(fnv(format!("{}:{}:{}", name, $tyname, v).as_bytes()), true);
                } else {
                    r.case_enumerated(true);
                }
                let case = json!({"encoding": name, "type": $tyname, "value": v.to_string()});
                let got = match guarded(|| enc(&v)) {
                    Ok(g) => g,
                    Err(p) => {
                        viol(r, &format!("{name}<{}>.encode {}", $tyname, panic_signature(&p)), format!("encode({v}) panicked: {p}"), case);
                        continue;
                    }
                };
                if &got != expected {
                    viol(r, &format!("{name}<{}>.encode differs from the independent encoding", $tyname), format!("encode({v}) = {}, expected {}", hex(&got), hex(expected)), case);
                    continue;
                }
                match guarded(|| dec(&got)) {
                    Err(p) => viol(r, &format!("{name}<{}>.decode {}", $tyname, panic_signature(&p)), format!("decode(encode({v})) panicked: {p}"), case),
                    Ok(Err(e)) => viol(r, &format!("{name}<{}>.decode error on own output", $tyname), format!("decode(encode({v})) = Err({e})"), case),
                    Ok(Ok((x, rest))) => {
                        if x != v || rest != 0 {
                            viol(r, &format!("{name}<{}> round trip", $tyname), format!("decode(encode({v})) = ({x}, {rest} bytes left)"), case);
                        }
                    }
                }
            }
        }
    };
}

int_checks!(check_u8, u8, "u8");
int_checks!(check_u16, u16, "u16");
int_checks!(check_u32, u32, "u32");
int_checks!(check_u64, u64, "u64");
int_checks!(check_usize, usize, "usize");

fn boundary_values(bits: u32) -> Vec<u128> {
    let max: u128 = (1u128 << bits) - 1;
    let mut v = vec![0, 1, max, max - 1];
    let mut p: u128 = 1;
    while p <= max {
        for d in [p.saturating_sub(1), p, p + 1] {
            if d <= max {
                v.push(d);
            }
        }
        p = match p.checked_mul(10) {
            Some(x) => x,
            None => break,
        };
    }
    for k in 0..bits {
        let b = 1u128 << k;
        for d in [b.saturating_sub(1), b, b + 1] {
            if d <= max {
                v.push(d);
            }
        }
    }
    v.sort();
    v.dedup();
    v
}

/// BCD *input* check: digits (and an optional trailing F pad) -> value or error.
macro_rules! bcd_input {
    ($fname:ident, $ty:ty, $tyname:literal) => {
        fn $fname(r: &mut Report, input: &[u8], hashed: bool) {
            let reference = Codec::bcd_value(input, <$ty>::MAX as u128);
            if hashed {
                r.case(fnv(input) ^ fnv($tyname.as_bytes()), true);
            } else {
                r.case_enumerated(true);
            }
            let case = json!({"decoder": format!("Bcd<{}>", $tyname), "input": hex(input)});
            let got = guarded(|| <Bcd as Encoding<$ty>>::decode(input).map(|(v, rest)| (v as u128, rest.len())).map_err(|e| format!("{e:?}")));
            match (reference, got) {
                (Ok(n), Ok(Ok((v, rest)))) => {
                    if v != n || rest != 0 {
                        viol(r, &format!("Bcd<{}>.decode wrong value", $tyname), format!("decode({}) = ({v}, {rest} left), digits say {n}", hex(input)), case);
                    }
                }
                (Ok(n), Ok(Err(e))) => viol(r, &format!("Bcd<{}>.decode rejects valid digits", $tyname), format!("decode({}) = Err({e}), digits say {n}", hex(input)), case),
                (Ok(_), Err(p)) => viol(r, &format!("Bcd<{}>.decode {} [fits]", $tyname, panic_signature(&p)), format!("decode({}) panicked: {p}", hex(input)), case),
                (Err(RefErr::Overflow), Ok(Err(_))) => r.count("bcd_overflow_inputs_rejected", 1),
                (Err(RefErr::Overflow), Ok(Ok((v, _)))) => viol(r, &format!("Bcd<{}>.decode wraps digits that do not fit", $tyname), format!("decode({}) = Ok({v}) although the digits exceed {}::MAX", hex(input), $tyname), case),
                (Err(RefErr::Overflow), Err(p)) => viol(r, &format!("Bcd<{}>.decode {} [digits exceed type]", $tyname, panic_signature(&p)), format!("decode({}) panicked: {p}", hex(input)), case),
                (Err(_), _) => r.count("unclaimed_inputs", 1),
            }
        }
    };
}

bcd_input!(bcd_in_u8, u8, "u8");
bcd_input!(bcd_in_u16, u16, "u16");
bcd_input!(bcd_in_u32, u32, "u32");
bcd_input!(bcd_in_u64, u64, "u64");
bcd_input!(bcd_in_usize, usize, "usize");

fn bcd_all(r: &mut Report, input: &[u8], hashed: bool) {
    bcd_in_u8(r, input, hashed);
    bcd_in_u16(r, input, hashed);
    bcd_in_u32(r, input, hashed);
    bcd_in_u64(r, input, hashed);
    bcd_in_usize(r, input, hashed);
}

fn digit_byte(i: usize) -> u8 {
    (((i / 10) as u8) << 4) | (i % 10) as u8
}

fn check_tag(r: &mut Report, t: u16) {
    // BigEndian: any u16
    r.case_enumerated(true);
    let case = json!({"tag": format!("{t:04x}"), "encoding": "BigEndian"});
    match guarded(|| {
        let b = <BigEndian as Encoding<Tag>>::encode(&Tag(t));
        let d = <BigEndian as Encoding<Tag>>::decode(&b).map(|(x, rest)| (x.0, rest.len())).map_err(|e| format!("{e:?}"));
        (b, d)
    }) {
        Err(p) => viol(r, &format!("BigEndian<Tag> {}", panic_signature(&p)), format!("tag {t:04x}: {p}"), case),
        Ok((b, d)) => {
            if b != vec![(t >> 8) as u8, t as u8] {
                viol(r, "BigEndian<Tag>.encode differs", format!("encode({t:04x}) = {}", hex(&b)), case);
            } else if d != Ok((t, 0)) {
                viol(r, "BigEndian<Tag> round trip", format!("decode(encode({t:04x})) = {d:?}"), case);
            }
        }
    }
    // Default: representable tags only
    let Some(expected) = tag_bytes(t) else {
        r.case_enumerated(false);
        r.count("unrepresentable_tags_skipped", 1);
        return;
    };
    r.case_enumerated(true);
    let case = json!({"tag": format!("{t:04x}"), "encoding": "Default"});
    match guarded(|| {
        let b = <Dflt as Encoding<Tag>>::encode(&Tag(t));
        let mut with_data = b.clone();
        with_data.extend([0xaa, 0xbb]);
        let d = <Dflt as Encoding<Tag>>::decode(&b).map(|(x, rest)| (x.0, rest.len())).map_err(|e| format!("{e:?}"));
        let d2 = <Dflt as Encoding<Tag>>::decode(&with_data).map(|(x, rest)| (x.0, rest.to_vec())).map_err(|e| format!("{e:?}"));
        (b, d, d2)
    }) {
        Err(p) => viol(r, &format!("Default<Tag> {}", panic_signature(&p)), format!("tag {t:04x}: {p}"), case),
        Ok((b, d, d2)) => {
            if b != expected {
                viol(r, "Default<Tag>.encode differs", format!("encode({t:04x}) = {}, expected {}", hex(&b), hex(&expected)), case);
            } else if d != Ok((t, 0)) {
                viol(r, "Default<Tag> round trip", format!("decode(encode({t:04x})) = {d:?}"), case);
            } else if d2 != Ok((t, vec![0xaa, 0xbb])) {
                viol(r, "Default<Tag> decode with trailing data", format!("decode(encode({t:04x}) + aabb) = {d2:?}"), case);
            }
        }
    }
    // the tag followed by every possible next byte (a tag must never swallow data that follows it)
    {
        // every representable tag (256 one-byte + 512 two-byte) x every next byte, alone and followed by more data
        for next in 0..=255u8 {
            r.case_enumerated(true);
            let mut input = expected.clone();
            let tail: Vec<u8> = if next % 2 == 0 { vec![next, 0x77] } else { vec![next] };
            input.extend(&tail);
            match guarded(|| <Dflt as Encoding<Tag>>::decode(&input).map(|(x, rest)| (x.0, rest.to_vec())).map_err(|e| format!("{e:?}"))) {
                Err(p) => viol(r, &format!("Default<Tag> {}", panic_signature(&p)), format!("decode({}): {p}", hex(&input)), json!({"tag": format!("{t:04x}"), "next_byte": next})),
                Ok(d) => {
                    if d != Ok((t, tail.clone())) {
                        viol(r, "Default<Tag> decode depends on the byte that follows the tag", format!("decode({}) = {d:?}, expected tag {t:04x} and the following bytes handed back", hex(&input)), json!({"tag": format!("{t:04x}"), "next_byte": next}));
                    }
                }
            }
        }
    }
}

fn check_text(r: &mut Report, bytes: &[u8], hashed: bool) {
    // canonical text: no trailing NUL
    let text: String = bytes.iter().map(|b| CP437[*b as usize]).collect();
    let nontrivial = !text.ends_with('\0');
    if hashed {
        r.case(fnv(bytes), nontrivial);
    } else {
        r.case_enumerated(nontrivial);
    }
    if !nontrivial {
        return;
    }
    let case = json!({"cp437_bytes": hex(bytes)});
    debug_assert_eq!(cp437_encode(&text).as_deref(), Some(bytes));
    match guarded(|| {
        let e = <Dflt as Encoding<String>>::encode(&text);
        let d = <Dflt as Encoding<String>>::decode(bytes).map(|(s, rest)| (s, rest.len())).map_err(|e| format!("{e:?}"));
        (e, d)
    }) {
        Err(p) => viol(r, &format!("Default<String> {}", panic_signature(&p)), format!("text bytes {}: {p}", hex(bytes)), case),
        Ok((e, d)) => {
            if e != bytes {
                viol(r, "Default<String>.encode differs from the CP437 table", format!("encode({text:?}) = {}, expected {}", hex(&e), hex(bytes)), case);
            } else if d != Ok((text.clone(), 0)) {
                viol(r, "Default<String>.decode differs from the CP437 table", format!("decode({}) = {d:?}, expected {text:?}", hex(bytes)), case);
            }
        }
    }
    // the same text in a NUL-padded field: the padding is not part of the text, whatever the text's bytes are
    if bytes.is_empty() {
        return;
    }
    for pad in [1usize, 3] {
        let mut padded = bytes.to_vec();
        padded.extend(std::iter::repeat(0u8).take(pad));
        r.case_enumerated(true);
        let case = json!({"cp437_bytes": hex(bytes), "nul_padding": pad});
        match guarded(|| <Dflt as Encoding<String>>::decode(&padded).map(|(s, rest)| (s, rest.len())).map_err(|e| format!("{e:?}"))) {
            Err(p) => viol(r, &format!("Default<String> {}", panic_signature(&p)), format!("padded text bytes {}: {p}", hex(&padded)), case),
            Ok(d) => {
                if d != Ok((text.clone(), 0)) {
                    viol(r, "Default<String>.decode keeps the NUL padding of a text field", format!("decode({}) = {d:?}, expected {text:?}", hex(&padded)), case);
                }
            }
        }
    }
}

fn check_hex(r: &mut Report, bytes: &[u8]) {
    let s = hex(bytes);
    r.case(fnv(bytes) ^ 0x4845, true);
    let case = json!({"hex": s});
    match guarded(|| {
        let e = <Hex as Encoding<String>>::encode(&s);
        let d = <Hex as Encoding<String>>::decode(bytes).map(|(s, rest)| (s, rest.len())).map_err(|e| format!("{e:?}"));
        (e, d)
    }) {
        Err(p) => viol(r, &format!("Hex<String> {}", panic_signature(&p)), format!("hex {s}: {p}"), case),
        Ok((e, d)) => {
            if e != bytes {
                viol(r, "Hex<String>.encode differs", format!("encode({s}) = {}", hex(&e)), case);
            } else if d != Ok((s.clone(), 0)) {
                viol(r, "Hex<String>.decode differs", format!("decode({s}) = {d:?}"), case);
            }
        }
    }
}

fn check_receipt(r: &mut Report, v: usize) {
    r.case_enumerated(true);
    let expected = if v == 0xffff { vec![0xff, 0xff] } else { bcd_bytes(v as u128) };
    let mut field = vec![0u8; 2 - expected.len()];
    field.extend(&expected);
    let case = json!({"receipt_no": v});
    match guarded(|| {
        let e = <PartialReversalReceiptNo as Encoding<usize>>::encode(&v);
        let d = <PartialReversalReceiptNo as Encoding<usize>>::decode(&field).map(|(x, rest)| (x, rest.len())).map_err(|e| format!("{e:?}"));
        (e, d)
    }) {
        Err(p) => viol(r, &format!("ReceiptNo {}", panic_signature(&p)), format!("receipt {v}: {p}"), case),
        Ok((e, d)) => {
            if e != expected {
                viol(r, "ReceiptNo.encode differs", format!("encode({v}) = {}, expected {}", hex(&e), hex(&expected)), case);
            } else if d != Ok((v, 0)) {
                viol(r, "ReceiptNo.decode differs", format!("decode({}) = {d:?}, expected {v}", hex(&field)), case);
            }
        }
    }
}

/// Boundary slice of the same checks for the Miri interpreter.
pub fn miri_slice(r: &mut Report, seed: u64, n: usize, shard: usize) -> usize {
    let mut rng = Rng::derive(seed, 0x1717 + shard as u64);
    let mut ops = 0;
    for v in [0u128, 1, 9, 10, 99, 100, 255] {
        check_u8(r, v as u8, false);
    }
    for b in boundary_values(16).into_iter().step_by(3) {
        check_u16(r, b as u16, false);
        check_tag(r, b as u16);
        ops += 2;
    }
    for b in boundary_values(64).into_iter().skip(shard % 5).step_by(5) {
        check_u64(r, b as u64, true);
        check_usize(r, b as usize, true);
        check_u32(r, b as u32, true);
        ops += 3;
    }
    for t in [0x1f00u16, 0x1fff, 0xff00, 0xff41, 0x1e, 0x20, 0xfe, 0x06, 0x1f0e] {
        check_tag(r, t);
    }
    while ops < n {
        let len = rng.below(12) as usize;
        let mut input: Vec<u8> = (0..len).map(|_| digit_byte(rng.below(100) as usize)).collect();
        if len > 0 && rng.chance(1, 3) {
            input[len - 1] |= 0x0f;
        }
        bcd_all(r, &input, true);
        let tl = rng.below(6) as usize;
        let mut t = rng.bytes(tl);
        if let Some(l) = t.last_mut() {
            if *l == 0 {
                *l = 0x31;
            }
        }
        check_text(r, &t, true);
        let hl = rng.below(9) as usize;
        check_hex(r, &rng.bytes(hl));
        check_receipt(r, rng.below(10000) as usize);
        ops += 8;
    }
    check_receipt(r, 0xffff);
    ops
}

pub fn run(ctx: &Ctx) -> i32 {
    let mut report = ctx.report("C17", "exploration");
    report.rule = "integers: u8/u16 exhaustively, u32/u64/usize at every power-of-ten and power-of-two boundary (+-1) plus random values, each under Default(LE)/BigEndian/Bcd, encode compared with an independent formula and decode(encode(v)) with (v, nothing left); all 65536 tags under BigEndian and every representable tag under Default, every representable tag (one- and two-byte) followed by every possible next byte; BCD *inputs*: every digit string of 0..3 bytes with and without a trailing F pad exhaustively, sampled to 11 bytes, for all five integer widths (value, or error when the digits exceed the type); CP437: every byte string of length 1..2 and all 256 bytes in each position of length-3 strings (canonical = no trailing NUL), random strings to 999 bytes, every one of these texts again behind 1 and 3 bytes of NUL padding (decodes to the same text), texts whose bytes are meaningful in another representation (UTF-8 sequences, byte-order marks, line ends, escapes) at the start / end / inside; hex strings to 64 bytes; receipt numbers 0..9999 and FFFF; and the codecs interleaved (one value through every integer width, the tag, text and hex codecs back to back in rotating order). Non-trivial = inside the claimed domain; distinct = distinct (encoding, type, value/input).".into();
    report.exhaustive = Some(false);
    report.assumptions = vec![
        "independent encodings in refcodec::codec (bcd_bytes, tag_bytes, CP437 table generated from Python's cp437 codec)".into(),
        "not claimed: BCD decoder behaviour on nibbles A-E or an F that is not a trailing pad; unrepresentable tags; text/hex outside the alphabets".into(),
    ];
    let threads = ctx.threads;
    let n_random = ctx.by(20_000u64, 1_000_000u64);
    let seed = ctx.seed;
    sharded(&mut report, threads, |shard, r| {
        // integers
        let mut v = shard as u32;
        while v < 65536 {
            if v < 256 {
                check_u8(r, v as u8, false);
            }
            check_u16(r, v as u16, false);
            check_tag(r, v as u16);
            v += threads as u32;
        }
        if shard == 0 {
            for b in boundary_values(32) {
                check_u32(r, b as u32, true);
            }
            for b in boundary_values(64) {
                check_u64(r, b as u64, true);
                check_usize(r, b as usize, true);
            }
            for v in 0..=9999usize {
                check_receipt(r, v);
            }
            check_receipt(r, 0xffff);
        }
        let mut rng = Rng::derive(seed, 1700 + shard as u64);
        for _ in 0..n_random / threads as u64 {
            let x = rng.next();
            // mix of magnitudes
            let sh = rng.below(64) as u32;
            check_u32(r, (x >> 32 >> (sh % 32)) as u32, true);
            check_u64(r, x >> sh, true);
            check_usize(r, (x.rotate_left(17) >> sh) as usize, true);
        }
        // BCD inputs, exhaustive to 3 bytes (digits only, optional trailing F pad)
        if shard == 0 {
            bcd_all(r, &[], false);
        }
        let mut a = shard;
        while a < 100 {
            let da = digit_byte(a);
            bcd_all(r, &[da], false);
            if a % 10 == 0 {
                bcd_all(r, &[da | 0x0f], false);
            }
            for b in 0..100 {
                let db = digit_byte(b);
                bcd_all(r, &[da, db], false);
                if b % 10 == 0 {
                    bcd_all(r, &[da, db | 0x0f], false);
                }
                for c in 0..100 {
                    let dc = digit_byte(c);
                    bcd_all(r, &[da, db, dc], false);
                    if c % 10 == 0 {
                        bcd_all(r, &[da, db, dc | 0x0f], false);
                    }
                }
            }
            a += threads;
        }
        // BCD inputs, sampled 4..11 bytes (biased to the overflow boundary of each width)
        for _ in 0..n_random / threads as u64 {
            let len = rng.range(4, 11) as usize;
            let mut input: Vec<u8> = (0..len).map(|_| digit_byte(rng.below(100) as usize)).collect();
            match rng.below(4) {
                0 => {
                    // leading zeros so that the value is near a type maximum
                    let z = rng.below(len as u64) as usize;
                    for b in input.iter_mut().take(z) {
                        *b = 0;
                    }
                }
                1 => {
                    // exactly MAX or MAX+1 of some width, left-padded
                    let max = *rng.pick(&[255u128, 65535, u32::MAX as u128, u64::MAX as u128]) + rng.below(2) as u128;
                    let mut b = bcd_bytes(max);
                    while b.len() < len {
                        b.insert(0, 0);
                    }
                    input = b;
                }
                _ => {}
            }
            if rng.chance(1, 4) {
                let l = input.len() - 1;
                input[l] |= 0x0f;
            }
            bcd_all(r, &input, true);
        }
        // CP437: every string of length 1 and 2, and every byte at each position of length-3 strings
        if shard == 0 {
            check_text(r, &[], false);
            for a in 0..256usize {
                check_text(r, &[a as u8], false);
            }
        }
        let mut a = shard;
        while a < 256 {
            for b in 0..256usize {
                check_text(r, &[a as u8, b as u8], false);
            }
            a += threads;
        }
        for _ in 0..(n_random / threads as u64).min(30_000) {
            let x = rng.byte();
            let y = rng.byte();
            for pos in 0..3 {
                for v in [0u8, 1, 0x7f, 0x80, 0xff, rng.byte()] {
                    let mut s = [x, y, rng.byte()];
                    s[pos] = v;
                    check_text(r, &s, true);
                }
            }
        }
        // texts whose bytes mean something in another representation (UTF-8 sequences incl. a byte-order mark, UTF-16
        // marks, line ends, escapes): at the start, at the end, inside; alone, with ASCII and with arbitrary remainder
        if shard == 0 {
            const FOREIGN: &[&[u8]] = &[&[0xe2, 0x82, 0xac], &[0xef, 0xbb, 0xbf], &[0xc3, 0xa4], &[0xc3, 0x9f], &[0xe2, 0x80, 0x93], &[0xc2, 0xa0], &[0xf0, 0x9f, 0x99, 0x82], &[0xff, 0xfe], &[0xfe, 0xff], &[0x0d, 0x0a], &[0x0a, 0x0d], &[0x1b, 0x5b, 0x30, 0x6d], &[0x25, 0x73], &[0x5c, 0x6e], &[0x5c, 0x30]];
            for f in FOREIGN {
                for rest in [&b""[..], &b" 12,50 EUR"[..], &b"A"[..], &[0xe4, 0x41][..], &[0xc3, 0xa4, 0x20][..]] {
                    let mut a = f.to_vec();
                    a.extend_from_slice(rest);
                    check_text(r, &a, false);
                    let mut b = rest.to_vec();
                    b.extend_from_slice(f);
                    check_text(r, &b, false);
                    let mut c = b"Summe ".to_vec();
                    c.extend_from_slice(f);
                    c.extend_from_slice(rest);
                    check_text(r, &c, false);
                    r.count("texts_meaningful_in_another_representation", 3);
                }
            }
        }
        for _ in 0..(n_random / threads as u64 / 20).max(50) {
            let n = match rng.below(5) {
                0 => 999,
                1 => 99,
                2 => rng.below(1000) as usize,
                _ => rng.below(64) as usize,
            };
            let mut b = rng.bytes(n);
            if let Some(l) = b.last_mut() {
                if *l == 0 {
                    *l = 0x41;
                }
            }
            check_text(r, &b, true);
            let n = rng.below(65) as usize;
            check_hex(r, &rng.bytes(n));
        }
        // the encodings interleaved on one thread: the same numeric value through every width, the tag decoder, the
        // text and hex codecs back to back, in rotating order (nothing one codec leaves behind may reach the next)
        {
            let mut vals: Vec<u128> = (0..=300u128).collect();
            vals.extend(boundary_values(64));
            for (k, v) in vals.iter().enumerate() {
                if k % threads != shard {
                    continue;
                }
                let v = *v;
                let digits = v.to_string().into_bytes();
                for rot in 0..9usize {
                    for step in 0..9usize {
                        match (step + rot * 4) % 9 {
                            0 => check_u8(r, v as u8, true),
                            1 => check_u16(r, v as u16, true),
                            2 => check_u32(r, v as u32, true),
                            3 => check_u64(r, v as u64, true),
                            4 => check_usize(r, v as usize, true),
                            5 => check_tag(r, v as u16),
                            6 => check_text(r, &digits, true),
                            7 => check_hex(r, &digits),
                            _ => check_receipt(r, (v % 10000) as usize),
                        }
                        r.count("interleaved_codec_calls", 1);
                    }
                }
            }
        }
        if shard == 0 {
            for n in 0..=64 {
                check_hex(r, &(0..n).map(|i| (i * 37 + n) as u8).collect::<Vec<u8>>());
            }
            for b in 0..=255u8 {
                check_hex(r, &[b]);
            }
        }
    });
    report.sample(json!({"encoding": "Bcd", "type": "u16", "value": "1234", "bytes": hex(&bcd_bytes(1234))}));
    report.sample(json!({"bcd_input": "0123456f", "value": Codec::bcd_value(&[0x01, 0x23, 0x45, 0x6f], u64::MAX as u128).ok().map(|v| v.to_string())}));
    report.sample(json!({"tag": "1f0e", "default_bytes": tag_bytes(0x1f0e).map(|b| hex(&b))}));
    if !ctx.quick() && std::env::var("VERIF_NO_MIRI").is_err() {
        crate::c02::miri_tier(&mut report, "c17", 16, 200, ctx.seed);
    }
    crate::also_in_release_build(&mut report, "C17", ctx);
    report.finish()
}
