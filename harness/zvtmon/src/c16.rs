//! C16 — every length-prefix style is an exact, shortest-form bijection on its range.
//!
//! Exhaustive: every representable length of every style x trailing data, and
//! every byte string of length 0..=3 through the four prefix parsers.

use crate::sut::{guarded, panic_signature};
use crate::{sharded, Ctx};
use refcodec::codec::{apdu_len, ber_len, llvar, Codec, RefErr};
use refcodec::evidence::Report;
use refcodec::hex;
use serde_json::json;
use zvt_builder::length::{Adpu, Fixed, Length, Llv, Lllv, Tlv};
use zvt_builder::ZVTResult;

#[derive(Clone, Copy, PartialEq, Debug)]
enum Style {
    Ber,
    Apdu,
    Ll,
    Lll,
}

impl Style {
    fn name(self) -> &'static str {
        match self {
            Style::Ber => "Tlv",
            Style::Apdu => "Adpu",
            Style::Ll => "Llv",
            Style::Lll => "Lllv",
        }
    }
    fn max(self) -> usize {
        match self {
            Style::Ber | Style::Apdu => 65535,
            Style::Ll => 99,
            Style::Lll => 999,
        }
    }
    fn ser(self, n: usize) -> Vec<u8> {
        match self {
            Style::Ber => Tlv::serialize(n),
            Style::Apdu => Adpu::serialize(n),
            Style::Ll => Llv::serialize(n),
            Style::Lll => Lllv::serialize(n),
        }
    }
    fn de(self, b: &[u8]) -> ZVTResult<(usize, &[u8])> {
        match self {
            Style::Ber => Tlv::deserialize(b),
            Style::Apdu => Adpu::deserialize(b),
            Style::Ll => Llv::deserialize(b),
            Style::Lll => Lllv::deserialize(b),
        }
    }
    /// independent shortest form
    fn reference(self, n: usize) -> Vec<u8> {
        match self {
            Style::Ber => ber_len(n).unwrap(),
            Style::Apdu => apdu_len(n).unwrap(),
            Style::Ll => llvar(n, 2).unwrap(),
            Style::Lll => llvar(n, 3).unwrap(),
        }
    }
    fn ref_parse(self, b: &[u8]) -> Result<(usize, &[u8]), RefErr> {
        match self {
            Style::Ber => Codec::read_ber(b),
            Style::Apdu => Codec::read_apdu_len(b),
            Style::Ll => Codec::read_llvar(b, 2),
            Style::Lll => Codec::read_llvar(b, 3),
        }
    }
    /// is `b` a well-formed prefix start for which the statement claims a result
    fn well_formed(self, b: &[u8]) -> bool {
        match self {
            Style::Ber | Style::Apdu => true,
            Style::Ll => b.iter().take(2).all(|x| (0xf0..=0xf9).contains(x)),
            Style::Lll => b.iter().take(3).all(|x| (0xf0..=0xf9).contains(x)),
        }
    }
}

const STYLES: [Style; 4] = [Style::Ber, Style::Apdu, Style::Ll, Style::Lll];

fn check_roundtrip(r: &mut Report, st: Style, n: usize, trailing: &[u8]) {
    let expected = st.reference(n);
    let case = json!({"style": st.name(), "len": n, "trailing_len": trailing.len()});
    r.case_enumerated(true);
    let got = match guarded(|| st.ser(n)) {
        Ok(g) => g,
        Err(p) => {
            r.violation(&format!("{}.serialize {}", st.name(), panic_signature(&p)), &format!("serialize({n}) panicked: {p}"), case);
            return;
        }
    };
    if got != expected {
        r.violation(
            &format!("{}.serialize shortest-form mismatch", st.name()),
            &format!("serialize({n}) = {} but the shortest form is {}", hex(&got), hex(&expected)),
            case,
        );
        return;
    }
    let mut input = got.clone();
    input.extend_from_slice(trailing);
    match guarded(|| st.de(&input).map(|(l, rest)| (l, rest.to_vec())).map_err(|e| format!("{e:?}"))) {
        Err(p) => r.violation(&format!("{}.deserialize {}", st.name(), panic_signature(&p)), &format!("deserialize(serialize({n}) + data) panicked: {p}"), case),
        Ok(Err(e)) => r.violation(&format!("{}.deserialize error on own output", st.name()), &format!("deserialize(serialize({n}) + {} bytes) = Err({e})", trailing.len()), case),
        Ok(Ok((l, rest))) => {
            if l != n || rest != trailing {
                r.violation(
                    &format!("{}.deserialize wrong length/data", st.name()),
                    &format!("deserialize(serialize({n}) + data) = ({l}, {} bytes), expected ({n}, {} bytes)", rest.len(), trailing.len()),
                    case,
                );
            }
        }
    }
    if r.wants_sample() && n % 97 == 3 {
        r.sample(json!({"style": st.name(), "len": n, "prefix": hex(&expected), "trailing_len": trailing.len()}));
    }
}

fn check_parser(r: &mut Report, st: Style, input: &[u8]) {
    let res = guarded(|| st.de(input).map(|(l, rest)| (l, rest.len())).map_err(|e| format!("{e:?}")));
    let reference = st.ref_parse(input);
    let claimed = st.well_formed(input);
    // non-trivial: inputs for which the statement claims a definite outcome
    r.case_enumerated(claimed);
    let case = json!({"parser": st.name(), "input": hex(input)});
    match res {
        Err(p) => {
            let class = match reference {
                Err(RefErr::Incomplete) => "truncated-prefix",
                Err(_) => "unsupported-prefix",
                Ok(_) => "valid-prefix",
            };
            r.violation(&format!("{}.deserialize {} [{}]", st.name(), panic_signature(&p), class), &format!("deserialize({}) panicked: {p}", hex(input)), case);
        }
        Ok(got) => match (reference, got) {
            (Ok((n, rest)), Ok((l, rl))) => {
                if claimed && (n != l || rest.len() != rl) {
                    r.violation(
                        &format!("{}.deserialize disagrees with the independent parser", st.name()),
                        &format!("deserialize({}) = ({l}, {rl} bytes left), independent parser: ({n}, {} bytes left)", hex(input), rest.len()),
                        case,
                    );
                }
            }
            (Ok((n, _)), Err(e)) => {
                if claimed {
                    r.violation(&format!("{}.deserialize rejects a valid prefix", st.name()), &format!("deserialize({}) = Err({e}), expected length {n}", hex(input)), case);
                }
            }
            (Err(RefErr::Incomplete), Ok((l, _))) => {
                r.violation(&format!("{}.deserialize accepts a truncated prefix", st.name()), &format!("deserialize({}) = Ok(len {l}) although the prefix is truncated", hex(input)), case);
            }
            (Err(_), _) => {
                r.count("unclaimed_inputs", 1);
            }
        },
    }
}

macro_rules! fixed_cases {
    ($r:expr, $($n:literal),*) => {
        $( check_fixed::<$n>($r); )*
    };
}

fn check_fixed<const N: usize>(r: &mut Report) {
    for len in 0..=N {
        for trailing in [0usize, 1, 300] {
            r.case_enumerated(true);
            let case = json!({"style": format!("Fixed<{N}>"), "len": len, "trailing_len": trailing});
            let pad = match guarded(|| Fixed::<N>::serialize(len)) {
                Ok(p) => p,
                Err(p) => {
                    r.violation(&format!("Fixed.serialize {}", panic_signature(&p)), &format!("Fixed<{N}>::serialize({len}) panicked: {p}"), case);
                    continue;
                }
            };
            if pad != vec![0u8; N - len] {
                r.violation("Fixed.serialize is not left-padding with 00", &format!("Fixed<{N}>::serialize({len}) = {}", hex(&pad)), case);
                continue;
            }
            let mut data = pad.clone();
            data.extend((0..len).map(|i| 0x31 + i as u8));
            data.extend((0..trailing).map(|i| 0xa0 ^ i as u8));
            match guarded(|| Fixed::<N>::deserialize(&data).map(|(l, d)| (l, d.to_vec())).map_err(|e| format!("{e:?}"))) {
                Err(p) => r.violation(&format!("Fixed.deserialize {}", panic_signature(&p)), &format!("Fixed<{N}>::deserialize panicked: {p}"), case),
                Ok(Err(e)) => r.violation("Fixed.deserialize error on a full field", &format!("Fixed<{N}>::deserialize of {} bytes = Err({e})", data.len()), case),
                Ok(Ok((l, d))) => {
                    if l != N || d != data {
                        r.violation("Fixed.deserialize wrong width/data", &format!("Fixed<{N}>::deserialize = ({l}, {} bytes), expected ({N}, {} bytes)", d.len(), data.len()), case);
                    }
                }
            }
        }
    }
    // truncated field: fewer than N bytes must be an error
    for short in 0..N {
        r.case_enumerated(true);
        let data = vec![0x11u8; short];
        let case = json!({"style": format!("Fixed<{N}>"), "available": short});
        match guarded(|| Fixed::<N>::deserialize(&data).map(|(l, _)| l).map_err(|e| format!("{e:?}"))) {
            Err(p) => r.violation(&format!("Fixed.deserialize {}", panic_signature(&p)), &format!("Fixed<{N}>::deserialize of {short} bytes panicked: {p}"), case),
            Ok(Ok(l)) => r.violation("Fixed.deserialize accepts a truncated field", &format!("Fixed<{N}>::deserialize of {short} bytes = Ok({l})"), case),
            Ok(Err(_)) => {}
        }
    }
}

/// Boundary slice of the same checks for the Miri interpreter.
pub fn miri_slice(r: &mut Report, n: usize, shard: usize) -> usize {
    let mut ops = 0;
    let trailing: Vec<u8> = (0..40u8).collect();
    for st in STYLES {
        for l in [0usize, 1, 9, 10, 99, 100, 126, 127, 128, 129, 254, 255, 256, 257, 999, 1000, 65534, 65535] {
            if l <= st.max() {
                check_roundtrip(r, st, l, &trailing);
                ops += 1;
            }
        }
        check_parser(r, st, &[]);
        for a in (shard..256).step_by(16) {
            check_parser(r, st, &[a as u8]);
            check_parser(r, st, &[a as u8, 0xf3]);
            check_parser(r, st, &[0x82, a as u8]);
            check_parser(r, st, &[0xff, a as u8]);
            check_parser(r, st, &[a as u8, 1, 2]);
            ops += 5;
            if ops >= n * 4 {
                break;
            }
        }
    }
    fixed_cases!(r, 1, 2, 8, 17);
    ops
}

pub fn run(ctx: &Ctx) -> i32 {
    let mut report = ctx.report("C16", "exploration");
    report.rule = "exhaustive: (style, length, trailing-data) for every representable length of BER-TLV/APDU (0..65535), LLVAR (0..99), LLLVAR (0..999), Fixed<1..17> (payload 0..N) with trailing data of 0/1/300 bytes (and, for the smallest, the largest and a stride of lengths, of 65533 / 65537 bytes) and, for the two-byte-length styles, trailing data of exactly len-8 .. len+8 and byte-swapped-len bytes, and trailing data that begins with one / two copies of the prefix itself; for LLVAR / LLLVAR trailing data that begins with one more digit byte F0..F9 and is exactly (and one less / one more than) as long as the header extended by that digit would announce; plus every byte string of length 0..3 through the four prefix parsers (styles alternating per input); plus the styles interleaved: the same / the neighbouring length through all 24 orderings of the four styles back to back on one thread. A case is non-trivial when the statement claims a definite outcome for it (all round-trip cases; parser inputs whose prefix bytes are well-formed for the style). Distinct = distinct (style,length,trailing) / (parser,input).".into();
    report.exhaustive = Some(true);
    report.assumptions = vec![
        "independent shortest-form formulas and prefix parsers of refcodec::codec are the oracle".into(),
        "serialize() outside the representable range and acceptance of non-shortest forms are not claimed".into(),
    ];
    let trailing300: Vec<u8> = (0..300u32).map(|i| (i * 7 + 1) as u8).collect();
    // (a) round trips, sharded by length
    let threads = ctx.threads;
    let quick = ctx.quick();
    let big: Vec<u8> = (0..65537u32).map(|i| (i * 13 + 5) as u8).collect();
    sharded(&mut report, threads, |shard, r| {
        for st in STYLES {
            let mut n = shard;
            while n <= st.max() {
                for t in [&[][..], &[0x5a][..], &trailing300[..]] {
                    check_roundtrip(r, st, n, t);
                }
                // trailing data that takes the whole input beyond 64 KiB (the data behind a prefix is not bounded by it)
                if n < 4 || n + 4 > st.max() || n % 4099 == 0 {
                    check_roundtrip(r, st, n, &big[..]);
                    check_roundtrip(r, st, n, &big[..65533]);
                }
                // trailing data whose *content* looks like a prefix again: the prefix itself, twice, followed by filler
                if n < 2048 || n + 16 > st.max() || !quick || n % 53 == shard % 53 {
                    let pre = st.reference(n);
                    let mut t1 = pre.clone();
                    t1.extend(&big[..n.min(big.len())]);
                    check_roundtrip(r, st, n, &t1);
                    let mut t2 = pre.clone();
                    t2.extend(&pre);
                    t2.extend(&big[..(n + 3).min(big.len())]);
                    check_roundtrip(r, st, n, &t2);
                    let t3 = vec![pre[0]; n.min(700) + pre.len() + 1];
                    check_roundtrip(r, st, n, &t3);
                }
                // digit-count styles: the data behind the header begins with one more digit byte F0..F9 and is exactly as
                // long as the header extended by that digit would announce (10 n + d bytes behind the longer header,
                // and one more / one less) - the header still has its own number of digits
                if matches!(st, Style::Ll | Style::Lll) {
                    for d in 0..=9usize {
                        for behind in [(10 * n + d).saturating_sub(1), 10 * n + d, 10 * n + d + 1] {
                            let mut t = vec![0xf0 | d as u8];
                            t.extend(&big[..behind]);
                            check_roundtrip(r, st, n, &t);
                        }
                    }
                }
                // trailing data whose length is related to the encoded length itself (exactly the announced
                // payload, one less, one more, and the byte-swapped length): quick on a stride, thorough on all
                if matches!(st, Style::Ber | Style::Apdu) && (n < 1024 || n + 16 > st.max() || !quick || n % 61 == shard % 61) {
                    let swapped = ((n & 0xff) << 8) | (n >> 8);
                    // exactly the announced payload, the byte-swapped length, and everything from 8 bytes less to 8 bytes more
                    // (the prefix's own size among the differences)
                    let mut tls = vec![n, swapped];
                    for d in 1..=8usize {
                        tls.push(n.saturating_sub(d));
                        tls.push(n + d);
                    }
                    for tl in tls {
                        check_roundtrip(r, st, n, &big[..tl.min(big.len())]);
                    }
                }
                n += threads;
            }
        }
        if shard == 0 {
            fixed_cases!(r, 1, 2, 3, 4, 5, 6, 7, 8, 9, 10, 11, 12, 13, 14, 15, 16, 17);
        }
    });
    // (c) the styles interleaved on one thread: the same (and a neighbouring) length through every ordering of the
    //     styles back to back, so that nothing one style leaves behind (a cache, a scratch buffer) reaches the next
    sharded(&mut report, threads, |shard, r| {
        let orders: Vec<Vec<Style>> = {
            let mut out = vec![];
            let idx = [0usize, 1, 2, 3];
            // all 24 permutations
            for a in idx {
                for b in idx {
                    for c in idx {
                        for d in idx {
                            let p = [a, b, c, d];
                            let mut seen = [false; 4];
                            if p.iter().all(|x| !std::mem::replace(&mut seen[*x], true)) {
                                out.push(p.iter().map(|i| STYLES[*i]).collect());
                            }
                        }
                    }
                }
            }
            out
        };
        let mut n = shard;
        while n <= 65535 {
            if n <= 1000 || n % 257 == 0 || (n & (n + 1)) == 0 || !quick {
                for (oi, order) in orders.iter().enumerate() {
                    if n > 1000 && oi % 6 != 0 {
                        continue;
                    }
                    for (k, st) in order.iter().enumerate() {
                        // same length, and every other step the neighbouring one
                        let m = if k % 2 == 1 && oi % 2 == 1 { n + 1 } else { n };
                        if m <= st.max() {
                            check_roundtrip(r, *st, m, &[0x5a]);
                            r.count("interleaved_style_calls", 1);
                        }
                    }
                }
            }
            n += threads;
        }
    });
    // (b) parsers on every string of length 0..=3, sharded by first byte
    sharded(&mut report, threads, |shard, r| {
        if shard == 0 {
            for st in STYLES {
                check_parser(r, st, &[]);
            }
        }
        let mut a = shard;
        while a < 256 {
            for st in STYLES {
                check_parser(r, st, &[a as u8]);
                for b in 0..256usize {
                    check_parser(r, st, &[a as u8, b as u8]);
                    for c in 0..256usize {
                        check_parser(r, st, &[a as u8, b as u8, c as u8]);
                    }
                }
            }
            a += threads;
        }
    });
    report.extra.insert("styles".into(), json!(["Tlv(BER)", "Adpu", "Llv", "Lllv", "Fixed<1..17>"]));
    if !ctx.quick() && std::env::var("VERIF_NO_MIRI").is_err() {
        crate::c02::miri_tier(&mut report, "c16", 16, 100, ctx.seed);
    }
    crate::also_in_release_build(&mut report, "C16", ctx);
    report.finish()
}
