//! C05 / C06 — the sequence monitors over the scripted terminal's event log.
//! (C11 re-uses the runner and the abstract-log checker.)

use crate::script::{drive_stream, log_to_json, Chunking, Entry, Ev, Script, Term};
use crate::sut::{guarded, panic_signature};
use crate::Ctx;
use refcodec::codec::{apdu_len, Codec, Payload};
use refcodec::evidence::{sharded, Report};
use refcodec::gen::{Gen, GenCfg, Presence};
use refcodec::hex;
use refcodec::layout::Schema;
use refcodec::prng::{fnv, Rng};
use refcodec::tables::{reply_enum, StreamDef, STREAMS};
use refcodec::val::render_struct;
use serde_json::json;
use std::collections::BTreeMap;
use std::path::PathBuf;
use zvt::io::PacketTransport;
use zvt::sequences::Sequence;
use zvt::ZvtSerializer;

pub const ACK: [u8; 3] = [0x80, 0x00, 0x00];

// ---------------------------------------------------------------- running one stream

pub struct WriteFileParams {
    pub dir: PathBuf,
    pub password: usize,
    pub block: u32,
}

macro_rules! seq_run {
    ($S:ty, $cmd:expr, $term:expr) => {{
        let (input, _) = <<$S as Sequence>::Input as ZvtSerializer>::zvt_deserialize($cmd).map_err(|e| format!("harness: command not decodable: {e:?}"))?;
        let mut transport = PacketTransport { source: $term.clone() };
        let mut stream = <$S as Sequence>::into_stream(&input, &mut transport);
        Ok(drive_stream(stream.as_mut(), $term, 100_000))
    }};
}

/// Run the real stream `name` against the scripted terminal.  Ok(false) = harness guard fired.
pub fn run_stream(name: &str, cmd: &[u8], term: &Term, wf: Option<&WriteFileParams>) -> Result<bool, String> {
    use zvt::feig::sequences as fs;
    use zvt::sequences as s;
    let r = guarded(|| -> Result<bool, String> {
        match name {
            "Registration" => seq_run!(s::Registration, cmd, term),
            "ReadCard" => seq_run!(s::ReadCard, cmd, term),
            "Initialization" => seq_run!(s::Initialization, cmd, term),
            "SetTerminalId" => seq_run!(s::SetTerminalId, cmd, term),
            "ResetTerminal" => seq_run!(s::ResetTerminal, cmd, term),
            "Diagnosis" => seq_run!(s::Diagnosis, cmd, term),
            "EndOfDay" => seq_run!(s::EndOfDay, cmd, term),
            "Authorization" => seq_run!(s::Authorization, cmd, term),
            "Reservation" => seq_run!(s::Reservation, cmd, term),
            "PartialReversal" => seq_run!(s::PartialReversal, cmd, term),
            "PreAuthReversal" => seq_run!(s::PreAuthReversal, cmd, term),
            "PrintSystemConfiguration" => seq_run!(s::PrintSystemConfiguration, cmd, term),
            "SelectLanguage" => seq_run!(s::SelectLanguage, cmd, term),
            "StatusEnquiry" => seq_run!(s::StatusEnquiry, cmd, term),
            "feig::GetSystemInfo" => seq_run!(fs::GetSystemInfo, cmd, term),
            "feig::FactoryReset" => seq_run!(fs::FactoryReset, cmd, term),
            "feig::ChangeHostConfiguration" => seq_run!(fs::ChangeHostConfiguration, cmd, term),
            "feig::WriteFile" => {
                let p = wf.expect("WriteFile parameters");
                let mut transport = PacketTransport { source: term.clone() };
                let mut stream = fs::WriteFile::into_stream(p.dir.clone(), p.password, p.block, &mut transport);
                Ok(drive_stream(stream.as_mut(), term, 100_000))
            }
            other => Err(format!("harness: unknown stream {other}")),
        }
    });
    match r {
        Ok(x) => x,
        Err(p) => Err(format!("PANIC {p}")),
    }
}

// ---------------------------------------------------------------- abstract log

#[derive(Clone, Debug, PartialEq)]
pub enum Abs {
    /// bytes written by the client without an intervening read attempt
    W(Vec<u8>),
    /// bytes delivered in one run of read attempts (no write in between); `parked` if the run ended on a read that found nothing
    Read { n: usize, parked: bool, eof: bool },
    Yield { ok: bool, debug: String },
    End,
    Stuck,
}

pub fn abstract_log(log: &[Ev]) -> Vec<Abs> {
    let mut out: Vec<Abs> = vec![];
    for e in log {
        match e {
            Ev::W(b) => {
                if let Some(Abs::W(prev)) = out.last_mut() {
                    prev.extend_from_slice(b);
                } else {
                    out.push(Abs::W(b.clone()));
                }
            }
            Ev::Rq(0) => {}
            Ev::Rq(_) => {
                if !matches!(out.last(), Some(Abs::Read { .. })) {
                    out.push(Abs::Read { n: 0, parked: false, eof: false });
                }
            }
            Ev::R(b) => {
                if let Some(Abs::Read { n, .. }) = out.last_mut() {
                    *n += b.len();
                }
            }
            Ev::Pend => {
                if let Some(Abs::Read { parked, .. }) = out.last_mut() {
                    *parked = true;
                }
            }
            Ev::Eof => {
                if let Some(Abs::Read { eof, .. }) = out.last_mut() {
                    *eof = true;
                }
            }
            Ev::Yield { ok, debug } => out.push(Abs::Yield { ok: *ok, debug: debug.clone() }),
            Ev::End => out.push(Abs::End),
            Ev::Stuck => out.push(Abs::Stuck),
        }
    }
    out
}

fn kind(a: Option<&Abs>, cmd_len: usize) -> String {
    match a {
        None => "nothing".into(),
        Some(Abs::W(b)) if b == &ACK => "W(ack)".into(),
        Some(Abs::W(b)) if b.len() > 3 && b[0] == 0x80 && b[1] == 0x00 => "W(data block)".into(),
        Some(Abs::W(b)) if b.len() >= cmd_len && cmd_len > 3 => "W(command…)".into(),
        Some(Abs::W(b)) if b.len() % 3 == 0 && b.chunks(3).all(|c| c == ACK) => "W(several acks)".into(),
        Some(Abs::W(_)) => "W(other bytes)".into(),
        Some(Abs::Read { parked: true, .. }) => "Read(parked: nothing readable yet)".into(),
        Some(Abs::Read { .. }) => "Read".into(),
        Some(Abs::Yield { ok: true, .. }) => "Yield(ok)".into(),
        Some(Abs::Yield { ok: false, .. }) => "Yield(err)".into(),
        Some(Abs::End) => "End".into(),
        Some(Abs::Stuck) => "Stuck".into(),
    }
}

fn abs_json(a: &[Abs]) -> serde_json::Value {
    serde_json::Value::Array(
        a.iter()
            .map(|x| match x {
                Abs::W(b) => json!({"W": if b.len() <= 40 { hex(b) } else { format!("{}…({} bytes)", hex(&b[..20]), b.len()) }}),
                Abs::Read { n, parked, eof } => json!({"Read": n, "parked": parked, "eof": eof}),
                Abs::Yield { ok, debug } => json!({"Yield": if *ok { "ok" } else { "err" }, "debug": debug.chars().take(100).collect::<String>()}),
                Abs::End => json!("End"),
                Abs::Stuck => json!("Stuck"),
            })
            .collect(),
    )
}

// ---------------------------------------------------------------- one exchange

#[derive(Clone, Debug)]
pub struct Reply {
    pub variant: String,
    pub bytes: Vec<u8>,
    /// Debug the yielded item must have: `Variant(Struct { .. })`
    pub item_debug: String,
    /// what the client must write in answer (ack, or the data block)
    pub answer: Vec<u8>,
}

pub enum CmdCheck {
    Exact(Vec<u8>),
    /// a WriteFile announcement: any order of the files
    WriteFile { password: u128, files: BTreeMap<u8, u32>, len: usize },
}

impl CmdCheck {
    pub fn len(&self) -> usize {
        match self {
            CmdCheck::Exact(b) => b.len(),
            CmdCheck::WriteFile { len, .. } => *len,
        }
    }
    pub fn matches(&self, schema: &Schema, got: &[u8]) -> bool {
        match self {
            CmdCheck::Exact(b) => b == got,
            CmdCheck::WriteFile { password, files, .. } => {
                let codec = Codec::new(schema);
                let Ok((v, rest)) = codec.decode(schema.get("feig::packets::WriteFile"), got) else { return false };
                if !rest.is_empty() || v.field("password").and_then(|p| p.num()) != Some(*password) {
                    return false;
                }
                let mut seen = BTreeMap::new();
                let Some(list) = v.path("tlv.files") else { return files.is_empty() };
                for f in list.list() {
                    let (Some(id), Some(size)) = (f.field("file_id").and_then(|x| x.num()), f.field("file_size").and_then(|x| x.num())) else { return false };
                    if f.field("file_offset").and_then(|x| x.num()).is_some() || f.field("payload").and_then(|x| x.inner()).is_some() {
                        return false;
                    }
                    if seen.insert(id as u8, size as u32).is_some() {
                        return false;
                    }
                }
                &seen == files
            }
        }
    }
}

pub struct Exchange<'a> {
    pub stream: &'a str,
    pub cmd_bytes: Vec<u8>,
    pub cmd_check: CmdCheck,
    /// what the terminal sends in place of the acknowledgement of the command
    pub ack: Vec<u8>,
    pub replies: Vec<Reply>,
    /// index of the reply that ends the exchange (C05), if any
    pub final_at: Option<usize>,
    pub junk: Vec<u8>,
    pub chunking: Chunking,
    pub pend_between: bool,
    pub write_chunk: Option<usize>,
    /// C06: the faulty bytes sent after `replies` (which are all valid, non-final)
    pub fault: Option<Fault>,
    pub wf: Option<&'a WriteFileParams>,
}

#[derive(Clone, Debug)]
pub struct Fault {
    pub kind: &'static str,
    /// replaces the ack (position 0) or follows the valid replies
    pub at_ack: bool,
    pub bytes: Vec<u8>,
    /// the connection ends after these bytes
    pub eof: bool,
    /// what the terminal sends right behind the faulty bytes (e.g. it carries on with the regular script)
    pub followed_by: Vec<u8>,
}

pub struct Observed {
    pub log: Vec<Ev>,
    pub abs: Vec<Abs>,
    pub delivered: usize,
}

impl<'a> Exchange<'a> {
    fn script(&self) -> Script {
        let cmd_len = self.cmd_check.len();
        let mut entries = vec![];
        let mut gate = cmd_len;
        if let Some(f) = self.fault.as_ref().filter(|f| f.at_ack) {
            entries.push(Entry { bytes: f.bytes.clone(), gate });
            if !f.followed_by.is_empty() {
                entries.push(Entry { bytes: f.followed_by.clone(), gate });
            }
        } else {
            entries.push(Entry { bytes: self.ack.clone(), gate });
            for (i, r) in self.replies.iter().enumerate() {
                entries.push(Entry { bytes: r.bytes.clone(), gate });
                gate += r.answer.len();
                if Some(i) == self.final_at {
                    break;
                }
            }
            if let Some(f) = &self.fault {
                entries.push(Entry { bytes: f.bytes.clone(), gate });
                if !f.followed_by.is_empty() {
                    entries.push(Entry { bytes: f.followed_by.clone(), gate });
                }
            }
        }
        if !self.junk.is_empty() {
            // queued behind the final packet: present in the connection as soon as the final packet is
            let g = entries.last().map(|e| e.gate).unwrap_or(0);
            entries.push(Entry { bytes: self.junk.clone(), gate: g });
        }
        let mut s = Script::new(entries);
        s.chunking = self.chunking.clone();
        s.pend_between = self.pend_between;
        s.write_chunk = self.write_chunk;
        s.eof = self.fault.as_ref().map(|f| f.eof).unwrap_or(false);
        s
    }

    pub fn run(&self) -> Result<Observed, String> {
        let term = Term::new(self.script());
        match run_stream(self.stream, &self.cmd_bytes, &term, self.wf) {
            Ok(true) => {}
            Ok(false) => return Err("harness poll guard fired".into()),
            Err(e) => return Err(e),
        }
        let log = term.log();
        Ok(Observed { abs: abstract_log(&log), delivered: term.delivered(), log })
    }

    fn case_json(&self, obs: Option<&Observed>) -> serde_json::Value {
        json!({
            "kind": "sequence",
            "stream": self.stream,
            "command": hex(&self.cmd_bytes),
            "script": self.replies.iter().map(|r| json!({"variant": r.variant, "bytes": if r.bytes.len() <= 64 { hex(&r.bytes) } else { format!("{} bytes", r.bytes.len()) }})).collect::<Vec<_>>(),
            "final_at": self.final_at,
            "fault": self.fault.as_ref().map(|f| json!({"kind": f.kind, "at_ack": f.at_ack, "bytes": hex(&f.bytes), "then_eof": f.eof, "followed_by": hex(&f.followed_by)})),
            "junk": hex(&self.junk),
            "chunking": format!("{:?}", self.chunking),
            "pending_between_chunks": self.pend_between,
            "write_chunk": self.write_chunk,
            "observed": obs.map(|o| abs_json(&o.abs)),
            "log": obs.map(|o| log_to_json(&o.log[..o.log.len().min(200)])),
        })
    }

    /// The abstract log a correct client must produce for the valid part of the exchange (C05 rules S1-S7).
    fn expected_valid(&self, upto: usize, include_end: bool) -> Vec<Abs> {
        let mut exp = vec![Abs::W(self.cmd_bytes.clone())];
        let mut pending_read = self.ack.len();
        for r in self.replies.iter().take(upto) {
            exp.push(Abs::Read { n: pending_read + r.bytes.len(), parked: false, eof: false });
            pending_read = 0;
            exp.push(Abs::W(r.answer.clone()));
            exp.push(Abs::Yield { ok: true, debug: r.item_debug.clone() });
        }
        if include_end {
            exp.push(Abs::End);
        }
        exp
    }

    /// Firmware upload: a data block is judged by what it *decodes* to (file id, offset, payload); extra
    /// fields a block may carry are not forbidden by the property.  Blocks are rewritten to the canonical
    /// reference encoding of those three fields before the log comparison.
    fn normalise_data_blocks(&self, schema: &Schema, mut obs: Observed) -> Observed {
        if self.wf.is_none() {
            return obs;
        }
        let codec = Codec::new(schema);
        let def = schema.get("feig::packets::WriteData");
        for a in obs.abs.iter_mut() {
            if let Abs::W(b) = a {
                if b.len() > 3 && b[0] == 0x80 && b[1] == 0x00 {
                    if let Ok((v, rest)) = codec.decode(def, b) {
                        if rest.is_empty() {
                            let id = v.path("tlv.file.file_id").and_then(|x| x.num());
                            let off = v.path("tlv.file.file_offset").and_then(|x| x.num());
                            let payload: Vec<u8> = match v.path("tlv.file.payload").and_then(|x| x.inner()) {
                                Some(refcodec::val::Val::Bytes(p)) => p.clone(),
                                _ => vec![],
                            };
                            if let (Some(id), Some(off)) = (id, off) {
                                *b = WfCodec::data_block(id as u8, off as u32, &payload);
                            }
                        }
                    }
                }
            }
        }
        obs
    }

    /// C05: acknowledge every packet once, in order, stop at the final packet.
    pub fn check_c05(&self, r: &mut Report, schema: &Schema, prop: &str) {
        let k = self.final_at.expect("C05 exchange has a final reply") + 1;
        let obs = match self.run() {
            Ok(o) => o,
            Err(e) => {
                if let Some(p) = e.strip_prefix("PANIC ") {
                    r.violation(&format!("{}: {}", self.stream, panic_signature(p)), &format!("the sequence panicked: {p}"), self.case_json(None));
                } else {
                    r.inconclusive(&e);
                }
                return;
            }
        };
        let exp = self.expected_valid(k, true);
        let cmd_len = self.cmd_check.len();
        let obs = self.normalise_data_blocks(schema, obs);
        // the command may legitimately differ in the order of announced files (WriteFile)
        let mut got = obs.abs.clone();
        if let (Some(Abs::W(w)), CmdCheck::WriteFile { .. }) = (got.first().cloned(), &self.cmd_check) {
            if self.cmd_check.matches(schema, &w) {
                got[0] = Abs::W(self.cmd_bytes.clone());
            }
        }
        let expected_delivered = self.ack.len() + self.replies.iter().take(k).map(|x| x.bytes.len()).sum::<usize>();
        if got != exp {
            let i = got.iter().zip(exp.iter()).take_while(|(a, b)| a == b).count();
            let what = match (exp.get(i), got.get(i)) {
                (Some(Abs::Yield { debug: e, .. }), Some(Abs::Yield { ok: true, debug: g })) => format!("step {i}: yielded item {} but the packet that arrived decodes to {}", g.chars().take(120).collect::<String>(), e.chars().take(120).collect::<String>()),
                (Some(Abs::Read { n: e, .. }), Some(Abs::Read { n: g, parked, .. })) => format!("step {i}: read {g} bytes{} where exactly {e} were due", if *parked { " and then parked on a gated read (an answer was outstanding)" } else { "" }),
                (Some(Abs::W(e)), Some(Abs::W(g))) => format!("step {i}: wrote {} where {} was due", hex(&g[..g.len().min(32)]), hex(&e[..e.len().min(32)])),
                (e, g) => format!("step {i}: expected {} but observed {}", kind(e, cmd_len), kind(g, cmd_len)),
            };
            let sig = match (exp.get(i), got.get(i)) {
                (Some(Abs::Yield { .. }), Some(Abs::Yield { ok: true, .. })) => "yields a different item than the packet that arrived".to_string(),
                (Some(Abs::Read { n: e, .. }), Some(Abs::Read { n: g, .. })) => format!("reads {} than the packets due", if g > e { "more" } else { "less" }),
                (e, g) => format!("expected {} observed {}", kind(e, cmd_len), kind(g, cmd_len)),
            };
            r.violation(&format!("{prop} {}: {sig}", self.stream), &what, self.case_json(Some(&obs)));
        } else if obs.delivered != expected_delivered {
            r.violation(&format!("{prop} {}: bytes behind the final packet were consumed", self.stream), &format!("{} bytes delivered, ack + replies up to the final packet are {} bytes", obs.delivered, expected_delivered), self.case_json(Some(&obs)));
        } else if r.wants_sample() && k >= 2 {
            r.sample(json!({"stream": self.stream, "script": self.replies.iter().take(k).map(|x| x.variant.clone()).collect::<Vec<_>>(), "junk_len": self.junk.len(), "chunking": format!("{:?}", self.chunking), "abstract_log": abs_json(&obs.abs)}));
        }
    }

    /// C06: exactly one error, then silence.
    pub fn check_c06(&self, r: &mut Report, schema: &Schema, prop: &str) {
        let f = self.fault.as_ref().expect("C06 exchange has a fault");
        let obs = match self.run() {
            Ok(o) => o,
            Err(e) => {
                if let Some(p) = e.strip_prefix("PANIC ") {
                    r.violation(&format!("{} [{}]: {}", self.stream, f.kind, panic_signature(p)), &format!("the sequence panicked: {p}"), self.case_json(None));
                } else {
                    r.inconclusive(&e);
                }
                return;
            }
        };
        let cmd_len = self.cmd_check.len();
        let obs = self.normalise_data_blocks(schema, obs);
        let mut got = obs.abs.clone();
        if let (Some(Abs::W(w)), CmdCheck::WriteFile { .. }) = (got.first().cloned(), &self.cmd_check) {
            if self.cmd_check.matches(schema, &w) {
                got[0] = Abs::W(self.cmd_bytes.clone());
            }
        }
        // valid prefix: everything up to and including the yield of the last valid reply
        let nvalid = if f.at_ack { 0 } else { self.replies.len() };
        let exp = self.expected_valid(nvalid, false);
        let mut tail_start = exp.len();
        let mut prefix_ok = got.len() >= exp.len() && got[..exp.len()] == exp[..];
        if nvalid == 0 {
            // nothing was answered yet: prefix is just W(cmd)
            prefix_ok = got.first() == exp.first();
            tail_start = 1;
        }
        let fault_desc = format!("{}{}", f.kind, if f.at_ack { "@ack" } else { "" });
        if !prefix_ok {
            let i = got.iter().zip(exp.iter()).take_while(|(a, b)| a == b).count();
            r.violation(
                &format!("{prop} {} [{}]: before the fault: expected {} observed {}", self.stream, fault_desc, kind(exp.get(i), cmd_len), kind(got.get(i), cmd_len)),
                &format!("the valid part of the exchange deviates at step {i}"),
                self.case_json(Some(&obs)),
            );
            return;
        }
        let tail = &got[tail_start..];
        let writes: Vec<&Abs> = tail.iter().filter(|a| matches!(a, Abs::W(_))).collect();
        let yields: Vec<&Abs> = tail.iter().filter(|a| matches!(a, Abs::Yield { .. })).collect();
        let problem = if let Some(Abs::W(b)) = writes.first() {
            Some((format!("writes {} after the failure", if b.starts_with(&ACK) { "an acknowledgement" } else { "bytes" }), format!("wrote {} after the faulty bytes were delivered", hex(&b[..b.len().min(32)]))))
        } else if tail.iter().any(|a| matches!(a, Abs::Stuck)) {
            Some(("keeps waiting instead of reporting the failure".into(), "the stream parked on a read after the fault".into()))
        } else if yields.len() != 1 {
            Some((format!("{} items after the fault instead of exactly one error", yields.len()), format!("items after the fault: {:?}", yields.iter().map(|y| kind(Some(y), cmd_len)).collect::<Vec<_>>())))
        } else if !matches!(yields[0], Abs::Yield { ok: false, .. }) {
            Some(("the faulty packet is yielded as a value".into(), format!("{:?}", yields[0])))
        } else if tail.last() != Some(&Abs::End) {
            Some(("does not end after the error".into(), format!("last event: {}", kind(tail.last(), cmd_len))))
        } else if !matches!(tail.iter().rev().nth(1), Some(Abs::Yield { ok: false, .. })) {
            Some(("events between the error and the end".into(), String::new()))
        } else {
            None
        };
        if let Some((sig, what)) = problem {
            r.violation(&format!("{prop} {} [{}]: {sig}", self.stream, fault_desc), &what, self.case_json(Some(&obs)));
        } else if r.wants_sample() && nvalid >= 1 {
            r.sample(json!({"stream": self.stream, "valid_prefix": self.replies.iter().map(|x| x.variant.clone()).collect::<Vec<_>>(), "fault": fault_desc, "fault_bytes": hex(&f.bytes[..f.bytes.len().min(24)]), "abstract_log": abs_json(&obs.abs)}));
        }
    }
}

// ---------------------------------------------------------------- reply pools

pub struct Pools {
    /// struct key -> canonical encodings with their rendering
    pub by_type: BTreeMap<String, Vec<(Vec<u8>, String)>>,
}

impl Pools {
    pub fn build(schema: &Schema, seed: u64, per_type: usize) -> Pools {
        let codec = Codec::new(schema);
        let gen = Gen::new(schema, GenCfg { big: false, stray_pct: 0 });
        let mut by_type = BTreeMap::new();
        for def in schema.iter().filter(|d| d.cf.is_some()) {
            let mut rng = Rng::derive(seed, 0x5E0 ^ fnv(def.key.as_bytes()));
            let mut v = vec![];
            let mut tries = 0;
            while v.len() < per_type && tries < per_type * 40 {
                tries += 1;
                let presence = match v.len() {
                    0 => Presence::AllAbsent,
                    1 => Presence::AllPresent,
                    _ => Presence::Random,
                };
                let val = gen.gen_struct(&mut rng, def, presence, 0);
                match codec.canonical(def, &val) {
                    Ok(b) if b.len() <= 900 => v.push((b, render_struct(schema, def, &val))),
                    _ => {
                        if presence != Presence::Random && tries > 20 {
                            // systematic mask not canonical for this type: fall back to random
                            let val = gen.gen_struct(&mut rng, def, Presence::Random, 0);
                            if let Ok(b) = codec.canonical(def, &val) {
                                if b.len() <= 900 {
                                    v.push((b, render_struct(schema, def, &val)));
                                }
                            }
                        }
                    }
                }
            }
            by_type.insert(def.key.clone(), v);
        }
        Pools { by_type }
    }
    pub fn pick(&self, rng: &mut Rng, key: &str) -> &(Vec<u8>, String) {
        let v = &self.by_type[key];
        &v[rng.below(v.len() as u64) as usize]
    }
}

/// All words over the reply alphabet of the form non-final^d final, d < depth.
pub fn scripts_up_to(sd: &StreamDef, depth: usize) -> Vec<Vec<&'static str>> {
    let e = reply_enum(sd.replies);
    let all: Vec<&'static str> = e.variants.iter().map(|v| v.0).collect();
    if sd.finals.is_empty() {
        return all.iter().map(|v| vec![*v]).collect();
    }
    let nf: Vec<&'static str> = all.iter().filter(|v| !sd.finals.contains(v)).cloned().collect();
    let mut out = vec![];
    let mut level: Vec<Vec<&'static str>> = vec![vec![]];
    for _ in 0..depth {
        for p in &level {
            for f in sd.finals {
                let mut w = p.clone();
                w.push(*f);
                out.push(w);
            }
        }
        let mut next = vec![];
        for p in &level {
            for x in &nf {
                let mut w = p.clone();
                w.push(*x);
                next.push(w);
            }
        }
        level = next;
        if level.is_empty() {
            break;
        }
    }
    out
}

/// Prefixes of valid non-final replies, length <= depth.
pub fn prefixes_up_to(sd: &StreamDef, depth: usize) -> Vec<Vec<&'static str>> {
    let e = reply_enum(sd.replies);
    let all: Vec<&'static str> = e.variants.iter().map(|v| v.0).collect();
    if sd.finals.is_empty() {
        return vec![vec![]];
    }
    let nf: Vec<&'static str> = all.iter().filter(|v| !sd.finals.contains(v)).cloned().collect();
    let mut out = vec![vec![]];
    let mut level: Vec<Vec<&'static str>> = vec![vec![]];
    for _ in 0..depth {
        let mut next = vec![];
        for p in &level {
            for x in &nf {
                let mut w = p.clone();
                w.push(*x);
                next.push(w);
            }
        }
        out.extend(next.iter().cloned());
        level = next;
    }
    out
}

pub fn variant_key(sd: &StreamDef, variant: &str) -> &'static str {
    reply_enum(sd.replies).variants.iter().find(|v| v.0 == variant).unwrap().1
}

pub fn is_final(sd: &StreamDef, variant: &str) -> bool {
    sd.finals.is_empty() || sd.finals.contains(&variant)
}

/// A command value for a stream (canonical encoding of its input type).
pub fn command_for(schema: &Schema, pools: &Pools, rng: &mut Rng, sd: &StreamDef) -> Vec<u8> {
    let _ = schema;
    pools.pick(rng, sd.command).0.clone()
}

// ---------------------------------------------------------------- WriteFile support (shared with C11)

pub const RECOGNISED: [(&str, u8); 21] = [
    ("firmware/kernel.gz", 0x10),
    ("firmware/rootfs.gz", 0x11),
    ("firmware/components.tar.gz", 0x12),
    ("firmware/update.spec", 0x13),
    ("firmware/update_extended.spec", 0x14),
    ("app0/update.spec", 0x20),
    ("app0/update.tar.gz", 0x21),
    ("app1/update.spec", 0x22),
    ("app1/update.tar.gz", 0x23),
    ("app2/update.spec", 0x24),
    ("app2/update.tar.gz", 0x25),
    ("app3/update.spec", 0x26),
    ("app3/update.tar.gz", 0x27),
    ("app4/update.spec", 0x28),
    ("app4/update.tar.gz", 0x29),
    ("app5/update.spec", 0x30),
    ("app5/update.tar.gz", 0x31),
    ("app6/update.spec", 0x32),
    ("app6/update.tar.gz", 0x33),
    ("app7/update.spec", 0x34),
    ("app7/update.tar.gz", 0x35),
];

pub struct PayloadDir {
    pub dir: PathBuf,
    pub files: BTreeMap<u8, Vec<u8>>,
}

impl PayloadDir {
    pub fn create(tag: &str, files: &BTreeMap<u8, Vec<u8>>, extra: &[(&str, Vec<u8>)]) -> PayloadDir {
        let base = PathBuf::from(std::env::var("VERIF_WORK").unwrap_or_else(|_| "/verif/.build/main".into())).join("scratch").join(format!("{}-{}", std::process::id(), tag));
        let _ = std::fs::remove_dir_all(&base);
        std::fs::create_dir_all(&base).expect("scratch dir");
        for (id, content) in files {
            let rel = RECOGNISED.iter().find(|r| r.1 == *id).unwrap().0;
            let p = base.join(rel);
            std::fs::create_dir_all(p.parent().unwrap()).unwrap();
            std::fs::write(&p, content).unwrap();
        }
        for (rel, content) in extra {
            let p = base.join(rel);
            std::fs::create_dir_all(p.parent().unwrap()).unwrap();
            std::fs::write(&p, content).unwrap();
        }
        PayloadDir { dir: base, files: files.clone() }
    }
}

impl Drop for PayloadDir {
    fn drop(&mut self) {
        let _ = std::fs::remove_dir_all(&self.dir);
    }
}

/// Reference encodings around a firmware upload.
pub struct WfCodec<'a> {
    pub schema: &'a Schema,
}

impl<'a> WfCodec<'a> {
    fn tlv_file(fields: &[(u16, Vec<u8>)]) -> Vec<u8> {
        let mut inner = vec![];
        for (tag, val) in fields {
            inner.extend(refcodec::codec::tag_bytes(*tag).unwrap());
            inner.extend(refcodec::codec::ber_len(val.len()).unwrap());
            inner.extend(val);
        }
        let mut file = vec![0x2d];
        file.extend(refcodec::codec::ber_len(inner.len()).unwrap());
        file.extend(inner);
        file
    }
    fn apdu(cf: [u8; 2], body: Vec<u8>) -> Vec<u8> {
        let mut p = cf.to_vec();
        p.extend(apdu_len(body.len()).unwrap());
        p.extend(body);
        p
    }
    fn with_06(body: Vec<u8>) -> Vec<u8> {
        let mut out = vec![0x06];
        out.extend(refcodec::codec::ber_len(body.len()).unwrap());
        out.extend(body);
        out
    }
    /// 08 14: password + announced files (in ascending id order; the real order is free)
    pub fn announce(password: u128, files: &BTreeMap<u8, u32>) -> Vec<u8> {
        let mut body = vec![0u8; 3];
        let pb = refcodec::codec::bcd_bytes(password);
        body[3 - pb.len()..].copy_from_slice(&pb);
        let mut list = vec![];
        for (id, size) in files {
            list.extend(Self::tlv_file(&[(0x1d, vec![*id]), (0x1f00, size.to_be_bytes().to_vec())]));
        }
        body.extend(Self::with_06(list));
        Self::apdu([0x08, 0x14], body)
    }
    /// 04 0C request for data
    pub fn request(id: Option<u8>, offset: Option<u32>, container: bool, file: bool) -> Vec<u8> {
        if !container {
            return Self::apdu([0x04, 0x0c], vec![]);
        }
        if !file {
            return Self::apdu([0x04, 0x0c], Self::with_06(vec![]));
        }
        let mut f = vec![];
        if let Some(id) = id {
            f.push((0x1d, vec![id]));
        }
        if let Some(o) = offset {
            f.push((0x1e, o.to_be_bytes().to_vec()));
        }
        Self::apdu([0x04, 0x0c], Self::with_06(Self::tlv_file(&f)))
    }
    /// 04 0C request for data that carries further elements of the file container (a size, a payload of its own) in
    /// front of / behind the id and the offset
    pub fn request_with(id: u8, offset: u32, before: &[(u16, Vec<u8>)], behind: &[(u16, Vec<u8>)]) -> Vec<u8> {
        let mut f = before.to_vec();
        f.push((0x1d, vec![id]));
        f.push((0x1e, offset.to_be_bytes().to_vec()));
        f.extend(behind.iter().cloned());
        Self::apdu([0x04, 0x0c], Self::with_06(Self::tlv_file(&f)))
    }
    /// 80 00 data block answering (id, offset)
    pub fn data_block(id: u8, offset: u32, payload: &[u8]) -> Vec<u8> {
        let mut f = vec![(0x1d, vec![id]), (0x1e, offset.to_be_bytes().to_vec())];
        if !payload.is_empty() {
            f.push((0x1c, payload.to_vec()));
        }
        Self::apdu([0x80, 0x00], Self::with_06(Self::tlv_file(&f)))
    }
}

pub fn slice_of(file: &[u8], offset: u32, block: u32) -> &[u8] {
    let o = (offset as usize).min(file.len());
    let e = (o + block as usize).min(file.len());
    &file[o..e]
}

// ---------------------------------------------------------------- C05 / C06 drivers

fn junk_variants(rng: &mut Rng, pools: &Pools) -> Vec<Vec<u8>> {
    let n = 1 + rng.below(12) as usize;
    vec![vec![], pools.pick(rng, "packets::CompletionData").0.clone(), rng.bytes(n)]
}

fn make_reply(sd: &StreamDef, pools: &Pools, rng: &mut Rng, variant: &str) -> Reply {
    let key = variant_key(sd, variant);
    let (bytes, dbg) = pools.pick(rng, key).clone();
    Reply { variant: variant.to_string(), item_debug: item_debug(variant, key, &bytes, &dbg), bytes, answer: ACK.to_vec() }
}

/// Debug the yielded item must have: the variant wrapping what the variant's own packet type decodes from the
/// same bytes (its *content* is C03's subject; here only "the item is the packet that arrived" is judged).
/// Falls back to the reference rendering if that decoder fails.
pub fn item_debug(variant: &str, key: &str, bytes: &[u8], reference_rendering: &str) -> String {
    match crate::sut::decode_type(key, bytes) {
        crate::sut::Outcome::Ok { debug, .. } => format!("{variant}({debug})"),
        _ => format!("{variant}({reference_rendering})"),
    }
}

/// The same packet with its length in the extended form CC II FF lo hi (unchanged if it already is).
pub fn to_extended_form(p: &[u8]) -> Vec<u8> {
    if p.len() < 3 || p[2] == 0xff {
        return p.to_vec();
    }
    let body = &p[3..];
    let mut out = vec![p[0], p[1], 0xff, body.len() as u8, (body.len() >> 8) as u8];
    out.extend_from_slice(body);
    out
}

/// A small upload directory for the WriteFile stream inside C05/C06.
fn small_dir(tag: &str, rng: &mut Rng) -> (PayloadDir, WriteFileParams, BTreeMap<u8, u32>) {
    let mut files = BTreeMap::new();
    for (_, id) in RECOGNISED.iter() {
        if rng.chance(1, 5) {
            let n = rng.below(300) as usize;
            files.insert(*id, rng.bytes(n));
        }
    }
    if files.is_empty() {
        files.insert(0x10, rng.bytes(77));
    }
    let dir = PayloadDir::create(tag, &files, &[]);
    let sizes = files.iter().map(|(k, v)| (*k, v.len() as u32)).collect();
    let params = WriteFileParams { dir: dir.dir.clone(), password: rng.below(1_000_000) as usize, block: *rng.pick(&[1u32, 7, 64, 128, 255, 256, 1024]) };
    (dir, params, sizes)
}

fn wf_request_reply(rng: &mut Rng, dir: &PayloadDir, block: u32) -> Reply {
    let ids: Vec<u8> = dir.files.keys().cloned().collect();
    let id = *rng.pick(&ids);
    let file = &dir.files[&id];
    let offset = match rng.below(4) {
        0 => 0,
        1 => file.len() as u32,
        2 => file.len() as u32 + rng.below(5) as u32,
        _ => rng.below(file.len() as u64 + 1) as u32,
    };
    let bytes = WfCodec::request(Some(id), Some(offset), true, true);
    let dbg = item_debug("RequestForData", "feig::packets::RequestForData", &bytes, &format!("RequestForData {{ tlv: Some(WriteData {{ file: Some(File {{ file_id: Some({id}), file_offset: Some({offset}), file_size: None, payload: None }}) }}) }}"));
    Reply { variant: "RequestForData".into(), bytes, item_debug: dbg, answer: WfCodec::data_block(id, offset, slice_of(file, offset, block)) }
}

/// An upload directory with few, small files (firmware and application files mixed) for complete uploads.
pub fn upload_dir(tag: &str, rng: &mut Rng) -> (PayloadDir, WriteFileParams, BTreeMap<u8, u32>) {
    let mut files = BTreeMap::new();
    let n = 1 + rng.below(3) as usize;
    while files.len() < n {
        let (_, id) = if rng.chance(1, 2) { RECOGNISED[rng.below(5) as usize] } else { *rng.pick(&RECOGNISED) };
        let len = *rng.pick(&[0usize, 1, 6, 7, 8, 33, 64, 65]);
        files.entry(id).or_insert_with(|| rng.bytes(len));
    }
    let dir = PayloadDir::create(tag, &files, &[]);
    let sizes = files.iter().map(|(k, v)| (*k, v.len() as u32)).collect();
    let params = WriteFileParams { dir: dir.dir.clone(), password: rng.below(1_000_000) as usize, block: *rng.pick(&[7u32, 16, 64, 1024]) };
    (dir, params, sizes)
}

/// What a faithful terminal does: it fetches every announced file completely, block by block (files one after the
/// other or interleaved; optionally probing once more at the end of a file, which is answered with an empty block).
pub fn wf_full_upload(rng: &mut Rng, dir: &PayloadDir, block: u32) -> Vec<Reply> {
    let mut cursors: Vec<(u8, u32)> = dir.files.keys().map(|k| (*k, 0u32)).collect();
    rng.shuffle(&mut cursors);
    let interleave = rng.chance(1, 3);
    let probe = rng.chance(1, 3);
    let mut out = vec![];
    let mut done: Vec<bool> = vec![false; cursors.len()];
    let mut cur = 0usize;
    while done.iter().any(|d| !d) {
        if done[cur] {
            cur = (cur + 1) % cursors.len();
            continue;
        }
        let (id, off) = cursors[cur];
        let file = &dir.files[&id];
        let flen = file.len() as u32;
        if off >= flen && !(probe && off == flen) {
            done[cur] = true;
            continue;
        }
        let bytes = WfCodec::request(Some(id), Some(off), true, true);
        let dbg = item_debug("RequestForData", "feig::packets::RequestForData", &bytes, &format!("RequestForData {{ tlv: Some(WriteData {{ file: Some(File {{ file_id: Some({id}), file_offset: Some({off}), file_size: None, payload: None }}) }}) }}"));
        out.push(Reply { variant: "RequestForData".into(), bytes, item_debug: dbg, answer: WfCodec::data_block(id, off, slice_of(file, off, block)) });
        if off >= flen {
            done[cur] = true;
        } else {
            cursors[cur].1 = (off + block).min(flen);
            if cursors[cur].1 >= flen && !probe {
                done[cur] = true;
            }
        }
        if interleave {
            cur = (cur + 1) % cursors.len();
        }
    }
    out
}

pub fn run_c05(ctx: &Ctx) -> i32 {
    let mut report = ctx.report("C05", "exploration");
    let depth = ctx.by(5usize, 7usize);
    report.rule = format!("18 streams (17 Sequence impls + feig WriteFile) x every reply script of the form non-final^d final with d < {depth} over the stream's reply alphabet (single-reply streams: every variant), each letter instantiated with canonical values of the variant's type (several per letter, reference-encoded), x junk behind the final packet {{none, a valid packet, random bytes}} x chunking {{whole, byte-wise with a Pending wake-up between chunks}} x partial writes, and once more with every terminal packet (acknowledgement included) in the extended length form CC II FF lo hi; plus random scripts to depth 40; for WriteFile additionally complete uploads (every announced byte of 1-3 small firmware/application files fetched block by block, sequentially or interleaved, optionally probing the end of file) followed by the completion, and one upload of a single 43 MB file with requests around byte 42 949 672, in the middle and at the end; and for every stream with print lines in its reply set a print line of 65535 / 65534 / ... / 65530 / 32768 / 256 / 255 body bytes in front of the final packet (whole and cut inside its header), and for one stream a print line of every body length 1..65535 (quick: every length below 2048 and above 65000 and every multiple of a round block size with its neighbours). The terminal releases reply i+1 only after reply i was answered (gate). Oracle: the abstract event log must equal [W(command), Read(ack+r1), W(answer1), Yield(r1), Read(r2), W(answer2), Yield(r2) ... End] and the stream cursor must sit exactly behind the final packet. Non-trivial = script with at least one reply; distinct by hash of (stream, script bytes, junk, chunking).");
    report.exhaustive = Some(true);
    report.assumptions = vec!["reply sets and final packets per stream: DESIGN Appendix B (refcodec::tables), written from the specification".into(), "commands are obtained by decoding reference encodings (C03 covers that bridge)".into()];
    let schema = refcodec::zvt_schema();
    let pools = Pools::build(&schema, ctx.seed, 6);
    let threads = ctx.threads;
    let seed = ctx.seed;
    let n_random = ctx.by(60usize, 3000usize);
    let n_uploads = ctx.by(120usize, 4000usize);
    sharded(&mut report, threads, |shard, r| {
        if shard == 1 % threads {
            // one upload of a single file beyond 41 MiB: requests around byte 42 949 672 (bytes x 100 leaves 32 bits), in
            // the middle and at the end - each answered once, in order, before the next read
            let mut brng = Rng::derive(seed, 0xC05_B16);
            crate::c11::big_file_upload(r, &mut brng, shard, &schema, &pools, "C05");
        }
        let mut rng = Rng::derive(seed, 0xC05 + shard as u64);
        let mut work = 0usize;
        for sd in STREAMS {
            let is_wf = sd.name == "feig::WriteFile";
            let mut scripts = scripts_up_to(sd, depth);
            // random long scripts
            for _ in 0..n_random {
                if sd.finals.is_empty() {
                    break;
                }
                let e = reply_enum(sd.replies);
                let nf: Vec<&'static str> = e.variants.iter().map(|v| v.0).filter(|v| !sd.finals.contains(v)).collect();
                if nf.is_empty() {
                    break;
                }
                let d = 5 + rng.below(36) as usize;
                let mut w: Vec<&'static str> = (0..d).map(|_| *rng.pick(&nf)).collect();
                w.push(*rng.pick(sd.finals));
                scripts.push(w);
            }
            r.count("scripts", 0);
            // WriteFile: complete uploads (every announced byte fetched, then the completion) next to the free scripts
            let n_scripts = scripts.len();
            if is_wf {
                for _ in 0..n_uploads {
                    scripts.push(vec!["CompletionData"]);
                }
            }
            for (si, script) in scripts.into_iter().enumerate() {
                work += 1;
                if work % threads != shard {
                    continue;
                }
                let upload = is_wf && si >= n_scripts;
                let wf_ctx = if upload { Some(upload_dir(&format!("c05-{shard}"), &mut rng)) } else if is_wf { Some(small_dir(&format!("c05-{shard}"), &mut rng)) } else { None };
                let mut replies: Vec<Reply> = script
                    .iter()
                    .map(|v| match (&wf_ctx, *v) {
                        (Some((dir, params, _)), "RequestForData") => wf_request_reply(&mut rng, dir, params.block),
                        _ => make_reply(sd, &pools, &mut rng, v),
                    })
                    .collect();
                if upload {
                    let (dir, params, _) = wf_ctx.as_ref().unwrap();
                    let mut full = wf_full_upload(&mut rng, dir, params.block);
                    full.append(&mut replies);
                    replies = full;
                    r.count("complete_uploads", 1);
                }
                let (cmd_bytes, cmd_check) = match &wf_ctx {
                    Some((_, params, sizes)) => {
                        let b = WfCodec::announce(params.password as u128, sizes);
                        (b.clone(), CmdCheck::WriteFile { password: params.password as u128, files: sizes.clone(), len: b.len() })
                    }
                    None => {
                        let b = command_for(&schema, &pools, &mut rng, sd);
                        (b.clone(), CmdCheck::Exact(b))
                    }
                };
                // the same script with every terminal packet in the extended length form CC II FF lo hi (not the shortest
                // form for short bodies, but a form every reader accepts): one more variant per script
                let ext_replies: Vec<Reply> = replies.iter().map(|rp| Reply { bytes: to_extended_form(&rp.bytes), ..rp.clone() }).collect();
                for (vi, junk) in junk_variants(&mut rng, &pools).into_iter().chain(std::iter::once(vec![])).enumerate() {
                    let ext = vi == 3;
                    for (chunking, pend, wchunk) in [(Chunking::Whole, false, None), (Chunking::Bytewise, true, Some(1 + rng.below(3) as usize))] {
                        let replies = if ext { &ext_replies } else { &replies };
                        if ext {
                            r.count("scripts_in_extended_length_form", 1);
                        }
                        let ex = Exchange {
                            stream: sd.name,
                            cmd_bytes: cmd_bytes.clone(),
                            cmd_check: match &cmd_check {
                                CmdCheck::Exact(b) => CmdCheck::Exact(b.clone()),
                                CmdCheck::WriteFile { password, files, len } => CmdCheck::WriteFile { password: *password, files: files.clone(), len: *len },
                            },
                            ack: if ext { to_extended_form(&ACK) } else { ACK.to_vec() },
                            replies: replies.clone(),
                            final_at: Some(replies.len() - 1),
                            junk: junk.clone(),
                            chunking,
                            pend_between: pend,
                            write_chunk: wchunk,
                            fault: None,
                            wf: wf_ctx.as_ref().map(|c| &c.1),
                        };
                        let mut h = fnv(sd.name.as_bytes()) ^ fnv(&cmd_bytes);
                        for rp in replies.iter() {
                            h = h.wrapping_mul(0x100000001b3) ^ fnv(&rp.bytes);
                        }
                        h ^= fnv(&junk).rotate_left(7) ^ (pend as u64);
                        r.case(h, true);
                        r.note("streams_seen", sd.name);
                        r.note("final_packets_seen", &format!("{}:{}", sd.name, script.last().unwrap()));
                        if script.len() > 5 {
                            r.count("scripts_longer_than_5", 1);
                        }
                        ex.check_c05(r, &schema, "C05");
                    }
                }
            }
        }
    });
    // replies at the top of the length range: a print line whose body is 65535 / 65534 / 65531 / 65530 / 32768 / 256 / 255
    // bytes long, in front of the final packet, for every stream whose reply set has print lines
    {
        let schema = &schema;
        let pools = &pools;
        let streams: Vec<&'static StreamDef> = STREAMS.iter().filter(|sd| reply_enum(sd.replies).variants.iter().any(|v| v.0 == "PrintLine") && !sd.finals.is_empty()).collect();
        sharded(&mut report, threads, |shard, r| {
            let mut rng = Rng::derive(seed, 0xC05_B16 + shard as u64);
            let mut k = 0usize;
            // one stream: a print line of *every* body length 1..65535 (whole delivery): no length is special
            if let Some(sd) = streams.iter().find(|sd| sd.name == "PrintSystemConfiguration").or(streams.first()) {
                let cmd = command_for(schema, pools, &mut rng, sd);
                let fin = make_reply(sd, pools, &mut rng, sd.finals[0]);
                // thorough: every length; quick: every length below 2048 and above 65000, and every "round" length (a
                // multiple of 100, 128, 1000, 1024, 4096, 10000, 10240 ...) with its two neighbours
                let round = |b: usize| [100usize, 128, 250, 256, 500, 512, 1000, 1024, 2048, 4096, 5000, 8192, 10000, 10240, 16384].iter().any(|m| b % m == 0);
                let stride = 1usize;
                let mut body = 1 + shard;
                while body <= 65535 {
                    if ctx.quick() && !(body < 2048 || body > 65000 || round(body) || round(body + 1) || round(body - 1)) {
                        body += threads * stride;
                        continue;
                    }
                    let mut bytes = if body < 255 { vec![0x06, 0xd1, body as u8, 0x40] } else { vec![0x06, 0xd1, 0xff, body as u8, (body >> 8) as u8, 0x40] };
                    bytes.extend((0..body - 1).map(|i| b'a' + (i % 26) as u8));
                    let big = Reply { variant: "PrintLine".into(), item_debug: item_debug("PrintLine", "packets::PrintLine", &bytes, "?"), bytes, answer: ACK.to_vec() };
                    let ex = Exchange { stream: sd.name, cmd_bytes: cmd.clone(), cmd_check: CmdCheck::Exact(cmd.clone()), ack: ACK.to_vec(), replies: vec![big, fin.clone()], final_at: Some(1), junk: vec![], chunking: Chunking::Whole, pend_between: false, write_chunk: None, fault: None, wf: None };
                    r.case_enumerated(true);
                    r.count("print_lines_of_every_body_length", 1);
                    ex.check_c05(r, schema, "C05");
                    body += threads * stride;
                }
            }
            for sd in &streams {
                for body in [65535usize, 65534, 65533, 65532, 65531, 65530, 32768, 256, 255] {
                    for chunking in [Chunking::Whole, Chunking::Cuts(vec![3 + 1, 3 + 3, 3 + 4, 3 + 5, 3 + 6, 3 + 5 + body / 2])] {
                        k += 1;
                        if k % threads != shard {
                            continue;
                        }
                        let mut bytes = vec![0x06, 0xd1, 0xff, body as u8, (body >> 8) as u8, 0x40];
                        bytes.extend((0..body - 1).map(|i| b'A' + (i % 26) as u8));
                        let big = Reply { variant: "PrintLine".into(), item_debug: item_debug("PrintLine", "packets::PrintLine", &bytes, "?"), bytes, answer: ACK.to_vec() };
                        let fin = make_reply(sd, pools, &mut rng, sd.finals[0]);
                        let cmd = command_for(schema, pools, &mut rng, sd);
                        let replies = vec![big, fin];
                        let ex = Exchange { stream: sd.name, cmd_bytes: cmd.clone(), cmd_check: CmdCheck::Exact(cmd.clone()), ack: ACK.to_vec(), replies: replies.clone(), final_at: Some(1), junk: vec![0x80, 0x00, 0x00], chunking: chunking.clone(), pend_between: true, write_chunk: None, fault: None, wf: None };
                        r.case(fnv(sd.name.as_bytes()) ^ (body as u64) << 20 ^ fnv(format!("{chunking:?}").as_bytes()), true);
                        r.count("scripts_with_a_reply_at_the_top_of_the_length_range", 1);
                        ex.check_c05(r, schema, "C05");
                    }
                }
            }
        });
    }
    let missing: Vec<&str> = STREAMS.iter().map(|s| s.name).filter(|n| !report.sets.get("streams_seen").map(|s| s.contains(*n)).unwrap_or(false)).collect();
    if !missing.is_empty() {
        report.inconclusive(&format!("streams not exercised: {missing:?}"));
    }
    report.extra.insert("depth".into(), json!(depth));
    crate::also_in_release_build(&mut report, "C05", ctx);
    report.finish()
}

/// see run_c06: the acknowledgement position is swept over every control field
fn c06_ack_sweep(ctx: &Ctx, report: &mut Report, schema: &Schema) {
    crate::c15::ack_position_sweep(ctx, report, schema, "C06");
}

/// Malformed bodies for a control field inside the reply set: inputs whose rejection C13/C02 make mandatory.
/// One candidate per kind (where the type has the shape for it).
fn malformed(schema: &Schema, pools: &Pools, rng: &mut Rng, key: &str) -> Vec<(&'static str, Vec<u8>)> {
    let def = schema.get(key);
    let Some((c, i)) = def.cf else { return vec![] };
    let codec = Codec::new(schema);
    let has_pos_mandatory = def.fields.iter().any(|f| f.tag.is_none() && f.card == refcodec::layout::Card::One && !matches!(f.enc, refcodec::layout::Enc::Cp437));
    let mut cands: Vec<(&'static str, Vec<u8>)> = vec![];
    if has_pos_mandatory {
        cands.push(("missing-positional-field", vec![c, i, 0]));
    }
    // duplicate a non-repeated top-level tagged field; or cut a tagged field's value short
    let mut have_dup = false;
    let mut have_cut = false;
    for _ in 0..6 {
        let (bytes, _) = pools.pick(rng, key);
        let Ok((v, _)) = codec.decode(def, bytes) else { continue };
        let Ok(tree) = codec.enc_top(def, &v) else { continue };
        let mut t = tree.clone();
        if let Payload::Struct(s) = &mut t.payload {
            if let Some(gi) = (0..s.groups.len()).find(|gi| !s.groups[*gi].repeated) {
                let g = s.groups[gi].clone();
                s.groups.push(g);
                if let (Some(b), false) = (t.bytes(), have_dup) {
                    cands.push(("duplicate-tag", b));
                    have_dup = true;
                }
                // value cut short: keep only the tag (and length prefix) of the last non-repeated group, at the very end
                let mut t2 = tree.clone();
                if let Payload::Struct(s2) = &mut t2.payload {
                    let g = s2.groups.remove(gi);
                    let (Some(mut body), Some(eb)) = (s2.bytes(), g.elems[0].bytes()) else { continue };
                    if eb.len() > g.elems[0].tag.len() && !have_cut {
                        body.extend(&eb[..eb.len() - 1]);
                        let mut p = vec![c, i];
                        let Some(l) = apdu_len(body.len()) else { continue };
                        p.extend(l);
                        p.extend(body);
                        cands.push(("value-cut-short", p));
                        have_cut = true;
                    }
                }
            }
        }
    }
    // an element of a repeated field other than the first one announces more bytes than its container holds (everything
    // around it, the enclosing lengths included, is consistent).  Values with two and more elements are drawn afresh.
    fn break_later_element(n: &mut refcodec::codec::Node, rng: &mut Rng) -> bool {
        let Payload::Struct(s) = &mut n.payload else { return false };
        for g in s.groups.iter_mut() {
            if g.repeated && g.elems.len() >= 2 {
                let k = 1 + rng.below(g.elems.len() as u64 - 1) as usize;
                let e = &mut g.elems[k];
                let plen = match &e.payload {
                    Payload::Leaf(b) => b.len(),
                    Payload::Struct(st) => st.bytes().map(|b| b.len()).unwrap_or(0),
                };
                if matches!(e.len, refcodec::layout::Len::Ber) {
                    e.prefix_override = refcodec::codec::ber_len(plen + 1 + rng.below(40) as usize);
                    return true;
                }
            }
        }
        for g in s.groups.iter_mut() {
            for e in g.elems.iter_mut() {
                if break_later_element(e, rng) {
                    return true;
                }
            }
        }
        for e in s.positional.iter_mut() {
            if break_later_element(e, rng) {
                return true;
            }
        }
        false
    }
    let gen = Gen::new(schema, GenCfg { big: false, stray_pct: 0 });
    for _ in 0..40 {
        let v = gen.gen_struct(rng, def, Presence::Random, 0);
        if codec.canonical(def, &v).is_err() {
            continue;
        }
        let Ok(mut t) = codec.enc_top(def, &v) else { continue };
        if break_later_element(&mut t, rng) {
            if let Some(b) = t.bytes() {
                if b.len() <= 900 {
                    cands.push(("later-repeated-element-overruns", b));
                    break;
                }
            }
        }
    }
    // an inner (non-repeated) length-prefixed element, at any depth, announces more bytes than its container holds; the
    // enclosing lengths are consistent
    fn overrun_inner(n: &mut refcodec::codec::Node, rng: &mut Rng, depth: usize) -> bool {
        overrun_or_bad_form(n, rng, depth, false)
    }
    // `bad_form`: instead of overrunning, the element's length is written in a form the codec does not support (first
    // byte 80 or 83..FF)
    fn overrun_or_bad_form(n: &mut refcodec::codec::Node, rng: &mut Rng, depth: usize, bad_form: bool) -> bool {
        let Payload::Struct(s) = &mut n.payload else { return false };
        let mut order: Vec<usize> = (0..s.groups.len()).collect();
        rng.shuffle(&mut order);
        for gi in order {
            let g = &mut s.groups[gi];
            if g.repeated {
                continue;
            }
            let e = &mut g.elems[0];
            if depth >= 1 && matches!(e.len, refcodec::layout::Len::Ber) && rng.chance(1, 2) {
                let plen = match &e.payload {
                    Payload::Leaf(b) => b.len(),
                    Payload::Struct(st) => st.bytes().map(|b| b.len()).unwrap_or(0),
                };
                e.prefix_override = if bad_form {
                    Some(match rng.below(4) {
                        0 => vec![0x80],
                        1 => vec![0x83, 0, (plen >> 8) as u8, plen as u8],
                        2 => vec![0x84, 0, 0, (plen >> 8) as u8, plen as u8],
                        _ => vec![0x83 + rng.below(0x7d) as u8],
                    })
                } else {
                    refcodec::codec::ber_len(plen + 1 + rng.below(6) as usize)
                };
                return true;
            }
            if overrun_or_bad_form(e, rng, depth + 1, bad_form) {
                return true;
            }
        }
        false
    }
    for _ in 0..40 {
        let v = gen.gen_struct(rng, def, Presence::Random, 0);
        if codec.canonical(def, &v).is_err() {
            continue;
        }
        let Ok(mut t) = codec.enc_top(def, &v) else { continue };
        if overrun_inner(&mut t, rng, 0) {
            if let Some(b) = t.bytes() {
                if b.len() <= 900 {
                    cands.push(("inner-element-overruns-its-container", b));
                    break;
                }
            }
        }
    }
    for _ in 0..40 {
        let v = gen.gen_struct(rng, def, Presence::Random, 0);
        if codec.canonical(def, &v).is_err() {
            continue;
        }
        let Ok(mut t) = codec.enc_top(def, &v) else { continue };
        if overrun_or_bad_form(&mut t, rng, 0, true) {
            if let Some(b) = t.bytes() {
                if b.len() <= 900 {
                    cands.push(("inner-element-with-an-unsupported-length-form", b));
                    break;
                }
            }
        }
    }
    // keep only those the reference decoder rejects for a reason the codec properties make mandatory
    cands.retain(|(_, b)| matches!(codec.decode(def, b), Err(refcodec::codec::RefErr::Incomplete | refcodec::codec::RefErr::Duplicate(_) | refcodec::codec::RefErr::Missing(_) | refcodec::codec::RefErr::UnsupportedLen)));
    cands
}

pub fn run_c06(ctx: &Ctx) -> i32 {
    let mut report = ctx.report("C06", "fault_enumeration");
    let depth = ctx.by(4usize, 6usize);
    report.rule = format!("18 streams x every valid prefix of non-final replies of length <= {depth} x fault kinds {{NACK 84xx in place of a packet (all 256 codes at the acknowledgement position; in addition every one of the 65535 control fields other than 80 00 as a bare packet in place of the acknowledgement, with the regular script queued behind it), the same followed by the regular script (a terminal that did not notice), control field outside the reply set, malformed body for a control field inside the set (rejected by the reference decoder as incomplete/duplicate/missing: top-level duplicate tag, value cut short, missing positional field, a later element of a repeated field, or an inner non-repeated element at any depth, announcing more than its container holds; an inner element whose length is written in an unsupported form 80 / 83..FF), packet truncated at every offset followed by end of stream, clean end of stream at the packet boundary}} at every position (the acknowledgement position included), chunking whole / byte-wise; for WriteFile additionally every fault kind right behind (or inside) a complete upload of small firmware/application files, and requests that decode but cannot be served (no file id, no offset, unknown id, no file element) after any number of good requests, alone and followed by a good request and the completion. Oracle over the event log: the valid prefix is processed exactly as in C05; after the first faulty byte was delivered there is no write at all, exactly one Err item, then End (no parking). Non-trivial = every fault scenario; distinct by hash of (stream, prefix bytes, fault bytes, position, chunking).");
    report.exhaustive = Some(true);
    report.assumptions = vec!["malformed bodies are restricted to those whose rejection follows from C02/C13/C14 (top-level duplicate tag, value cut short, missing positional field, a later element of a repeated field overrunning its container)".into()];
    let schema = refcodec::zvt_schema();
    let pools = Pools::build(&schema, ctx.seed, 6);
    let threads = ctx.threads;
    let seed = ctx.seed;
    let n_uploads = ctx.by(80usize, 3000usize);
    sharded(&mut report, threads, |shard, r| {
        let mut rng = Rng::derive(seed, 0xC06 + shard as u64);
        let mut work = 0usize;
        for sd in STREAMS {
            let is_wf = sd.name == "feig::WriteFile";
            let e = reply_enum(sd.replies);
            let in_set: Vec<(u8, u8)> = e.variants.iter().filter_map(|v| schema.get(v.1).cf).collect();
            let mut prefixes = prefixes_up_to(sd, depth);
            // WriteFile: faults inside and right behind a complete upload (every announced byte fetched) as well
            let n_prefixes = prefixes.len();
            if is_wf {
                for _ in 0..n_uploads {
                    prefixes.push(vec![]);
                }
            }
            for (pi, prefix) in prefixes.into_iter().enumerate() {
                work += 1;
                if work % threads != shard {
                    continue;
                }
                let upload = is_wf && pi >= n_prefixes;
                let wf_ctx = if upload { Some(upload_dir(&format!("c06-{shard}"), &mut rng)) } else if is_wf { Some(small_dir(&format!("c06-{shard}"), &mut rng)) } else { None };
                let mut replies: Vec<Reply> = prefix
                    .iter()
                    .map(|v| match (&wf_ctx, *v) {
                        (Some((dir, params, _)), "RequestForData") => wf_request_reply(&mut rng, dir, params.block),
                        _ => make_reply(sd, &pools, &mut rng, v),
                    })
                    .collect();
                if upload {
                    let (dir, params, _) = wf_ctx.as_ref().unwrap();
                    replies = wf_full_upload(&mut rng, dir, params.block);
                    // the fault comes behind the complete upload, or (sometimes) somewhere inside it
                    if rng.chance(1, 3) && !replies.is_empty() {
                        let keep = rng.below(replies.len() as u64) as usize;
                        replies.truncate(keep);
                    } else {
                        r.count("faults_behind_complete_upload", 1);
                    }
                }
                let prefix_len = replies.len();
                let (cmd_bytes, mk_check): (Vec<u8>, Box<dyn Fn() -> CmdCheck>) = match &wf_ctx {
                    Some((_, params, sizes)) => {
                        let b = WfCodec::announce(params.password as u128, sizes);
                        let (pw, sz, l) = (params.password as u128, sizes.clone(), b.len());
                        (b, Box::new(move || CmdCheck::WriteFile { password: pw, files: sz.clone(), len: l }))
                    }
                    None => {
                        let b = command_for(&schema, &pools, &mut rng, sd);
                        let b2 = b.clone();
                        (b, Box::new(move || CmdCheck::Exact(b2.clone())))
                    }
                };
                // the packet that would come next (to be truncated), and the faults
                let next_variant = *rng.pick(&e.variants.iter().map(|v| v.0).collect::<Vec<_>>());
                let next = make_reply(sd, &pools, &mut rng, next_variant);
                let mut faults: Vec<Fault> = vec![];
                let positions: Vec<bool> = if prefix_len == 0 { vec![true, false] } else { vec![false] };
                for at_ack in positions {
                    let whole: Vec<u8> = if at_ack { ACK.to_vec() } else { next.bytes.clone() };
                    faults.push(Fault { kind: "nack", at_ack, bytes: vec![0x84, rng.byte(), 0x00], eof: false, followed_by: vec![] });
                    // foreign control field: a valid packet of a type outside the reply set
                    let foreign_key = loop {
                        let k = *rng.pick(&["packets::Registration", "packets::SetTimeAndDate", "packets::ReadCard", "packets::EndOfDay", "feig::packets::WriteFile", "packets::Authorization"]);
                        let cf = schema.get(k).cf.unwrap();
                        if at_ack || !in_set.contains(&cf) {
                            break k;
                        }
                    };
                    faults.push(Fault { kind: "foreign-control-field", at_ack, bytes: pools.pick(&mut rng, foreign_key).0.clone(), eof: false, followed_by: vec![] });
                    // the terminal carries on with the regular script behind the faulty packet (it did not notice):
                    // an acknowledgement and a valid final reply are queued right behind
                    let mut carry_on = ACK.to_vec();
                    carry_on.extend(next.bytes.iter());
                    faults.push(Fault { kind: "nack-then-regular-script", at_ack, bytes: vec![0x84, rng.byte(), 0x00], eof: false, followed_by: carry_on.clone() });
                    faults.push(Fault { kind: "foreign-then-regular-script", at_ack, bytes: pools.pick(&mut rng, foreign_key).0.clone(), eof: false, followed_by: carry_on.clone() });
                    // every negative-acknowledgement code 84 xx at the acknowledgement position (and sampled elsewhere)
                    if at_ack && prefix_len == 0 && !upload {
                        for code in 0..=255u8 {
                            faults.push(Fault { kind: "nack-code-sweep", at_ack, bytes: vec![0x84, code, 0x00], eof: false, followed_by: if code % 2 == 0 { vec![] } else { carry_on.clone() } });
                        }
                    }
                    if !at_ack {
                        // every variant of the reply set x every kind of malformed body its type has the shape for
                        // (deeper prefixes: one variant, to keep the enumeration in proportion)
                        let variants: Vec<&str> = if prefix_len <= 1 { e.variants.iter().map(|v| v.1).collect() } else { vec![*rng.pick(&e.variants.iter().map(|v| v.1).collect::<Vec<_>>())] };
                        for v in variants {
                            for (kind, b) in malformed(&schema, &pools, &mut rng, v) {
                                r.count(&format!("malformed.{kind}"), 1);
                                faults.push(Fault { kind: "malformed-body", at_ack, bytes: b, eof: false, followed_by: vec![] });
                            }
                        }
                    }
                    for cut in 0..whole.len() {
                        faults.push(Fault { kind: if cut == 0 { "eof-at-boundary" } else { "truncated" }, at_ack, bytes: whole[..cut].to_vec(), eof: true, followed_by: vec![] });
                    }
                    // WriteFile: requests that decode but cannot be served (no file id, id behind the offset under another
                    // tag, no offset, unknown id, no file element) - after any number of good requests; followed by a good
                    // request and the completion (a terminal that does not notice)
                    if let (false, Some((dir, params, _))) = (at_ack, &wf_ctx) {
                        let good = wf_request_reply(&mut rng, dir, params.block);
                        let mut carry = good.bytes.clone();
                        carry.extend([0x06, 0x0f, 0x00]);
                        let off = rng.below(64) as u32;
                        let some_id = *dir.files.keys().next().unwrap();
                        let raw = |tlv: Vec<u8>| -> Vec<u8> {
                            // 04 0C len | 06 len | 2D len | tlv
                            let mut f = vec![0x2d, tlv.len() as u8];
                            f.extend(tlv);
                            let mut c = vec![0x06, f.len() as u8];
                            c.extend(f);
                            let mut p = vec![0x04, 0x0c, c.len() as u8];
                            p.extend(c);
                            p
                        };
                        let o = off.to_be_bytes();
                        for (kind, bytes) in [
                            ("wf-request-without-id", WfCodec::request(None, Some(off), true, true)),
                            ("wf-request-id-under-a-foreign-tag-behind-the-offset", raw(vec![0x1e, 0x04, o[0], o[1], o[2], o[3], 0x9d, 0x01, some_id])),
                            ("wf-request-without-offset", WfCodec::request(Some(some_id), None, true, true)),
                            ("wf-request-unknown-id", WfCodec::request(Some(0x99), Some(off), true, true)),
                            ("wf-request-without-file-element", WfCodec::request(None, None, true, false)),
                            // a good id and offset followed by a payload element (which only the client ever sends) whose length
                            // overruns the file element; every enclosing length is consistent
                            ("wf-request-with-an-overrunning-payload-element", raw(vec![0x1d, 0x01, some_id, 0x1e, 0x04, o[0], o[1], o[2], o[3], 0x1c, 0x05, 0xaa])),
                            ("wf-request-with-an-overrunning-payload-element", raw(vec![0x1d, 0x01, some_id, 0x1e, 0x04, o[0], o[1], o[2], o[3], 0x1c, 0x81, 0x80, 0xaa, 0xbb])),
                        ] {
                            faults.push(Fault { kind, at_ack, bytes: bytes.clone(), eof: false, followed_by: vec![] });
                            faults.push(Fault { kind, at_ack, bytes, eof: false, followed_by: carry.clone() });
                        }
                    }
                }
                for f in faults {
                    for (chunking, pend) in [(Chunking::Whole, false), (Chunking::Bytewise, true)] {
                        let ex = Exchange {
                            stream: sd.name,
                            cmd_bytes: cmd_bytes.clone(),
                            cmd_check: mk_check(),
                            ack: ACK.to_vec(),
                            replies: replies.clone(),
                            final_at: None,
                            junk: vec![],
                            chunking,
                            pend_between: pend,
                            write_chunk: None,
                            fault: Some(f.clone()),
                            wf: wf_ctx.as_ref().map(|c| &c.1),
                        };
                        let mut h = fnv(sd.name.as_bytes()) ^ fnv(&cmd_bytes) ^ fnv(&f.bytes).rotate_left(11) ^ (f.at_ack as u64) << 1 ^ pend as u64;
                        for rp in &replies {
                            h = h.wrapping_mul(0x100000001b3) ^ fnv(&rp.bytes);
                        }
                        r.case(h, true);
                        r.note("streams_seen", sd.name);
                        r.count(&format!("faults.{}", f.kind), 1);
                        r.note("fault_positions_seen", &format!("{}:{}", f.kind, if f.at_ack { "ack".to_string() } else { prefix_len.min(9).to_string() }));
                        ex.check_c06(r, &schema, "C06");
                    }
                }
            }
        }
    });
    let missing: Vec<&str> = STREAMS.iter().map(|s| s.name).filter(|n| !report.sets.get("streams_seen").map(|s| s.contains(*n)).unwrap_or(false)).collect();
    if !missing.is_empty() {
        report.inconclusive(&format!("streams not exercised: {missing:?}"));
    }
    c06_ack_sweep(ctx, &mut report, &schema);
    report.extra.insert("depth".into(), json!(depth));
    crate::also_in_release_build(&mut report, "C06", ctx);
    report.finish()
}
