pub fn run_c05(_ctx: &crate::Ctx) -> i32 { 2 }
pub fn run_c06(_ctx: &crate::Ctx) -> i32 { 2 }
