pub fn run(_ctx: &crate::Ctx) -> i32 { 2 }
pub fn digest_server() -> i32 { 2 }
pub fn miri_slice(_ctx: &crate::Ctx) -> i32 { 2 }
