//! C02 — decoding is total: arbitrary bytes give a value or an error, never a
//! panic, an overflow, a loop without progress or an allocation out of
//! proportion; debug and release builds decode identically.
//!
//! Monitors: catch_unwind + panic hook (overflow-checked build), counting
//! allocator (peak live bytes per call), progress watchdog, and a digest
//! differential against the same workload executed by the plain release build.

use crate::sut::{decode_type_raw, guarded, panic_signature, parse_enum_raw, ENUM_KEYS, TYPE_KEYS};
use crate::Ctx;
use refcodec::codec::{bcd_bytes, ber_len, Codec, Node, Payload};
use refcodec::evidence::{sharded, Report};
use refcodec::gen::{Gen, GenCfg, Presence};
use refcodec::hex;
use refcodec::layout::*;
use refcodec::prng::{fnv, Rng};
use refcodec::tables::REPLY_ENUMS;
use serde_json::json;
use std::alloc::{GlobalAlloc, Layout, System};
use std::cell::Cell;
use std::io::{BufReader, Read, Write};
use std::sync::atomic::{AtomicBool, AtomicPtr, AtomicU64, AtomicUsize, Ordering};

// ---------------------------------------------------------------- counting allocator

pub struct Counting;

thread_local! {
    static LIVE: Cell<isize> = const { Cell::new(0) };
    static PEAK: Cell<isize> = const { Cell::new(0) };
}

unsafe impl GlobalAlloc for Counting {
    unsafe fn alloc(&self, l: Layout) -> *mut u8 {
        let p = System.alloc(l);
        if !p.is_null() {
            let _ = LIVE.try_with(|c| {
                let v = c.get() + l.size() as isize;
                c.set(v);
                let _ = PEAK.try_with(|p| {
                    if v > p.get() {
                        p.set(v)
                    }
                });
            });
        }
        p
    }
    unsafe fn dealloc(&self, p: *mut u8, l: Layout) {
        let _ = LIVE.try_with(|c| c.set(c.get() - l.size() as isize));
        System.dealloc(p, l)
    }
    unsafe fn realloc(&self, p: *mut u8, l: Layout, new: usize) -> *mut u8 {
        let q = System.realloc(p, l, new);
        if !q.is_null() {
            let _ = LIVE.try_with(|c| {
                let v = c.get() + new as isize - l.size() as isize;
                c.set(v);
                let _ = PEAK.try_with(|p| {
                    if v > p.get() {
                        p.set(v)
                    }
                });
            });
        }
        q
    }
}

#[global_allocator]
static GLOBAL: Counting = Counting;

fn alloc_window_start() {
    LIVE.with(|c| c.set(0));
    PEAK.with(|c| c.set(0));
}
fn alloc_window_peak() -> usize {
    PEAK.with(|c| c.get()).max(0) as usize
}

// ---------------------------------------------------------------- decoders

/// 0..55 struct types, 55..72 reply enums
fn n_decoders() -> usize {
    TYPE_KEYS.len() + ENUM_KEYS.len()
}
fn decoder_name(d: usize) -> &'static str {
    if d < TYPE_KEYS.len() {
        TYPE_KEYS[d]
    } else {
        ENUM_KEYS[d - TYPE_KEYS.len()]
    }
}
/// Result digest: Ok(Debug, remainder) | Err(variant); panics are reported separately.
fn decode(d: usize, input: &[u8]) -> Result<u64, String> {
    guarded(|| {
        if d < TYPE_KEYS.len() {
            match decode_type_raw(TYPE_KEYS[d], input) {
                Ok((dbg, rest)) => fnv(dbg.as_bytes()) ^ (rest as u64).wrapping_mul(0x9E3779B97F4A7C15) ^ 1,
                Err(e) => fnv(e.as_bytes()) ^ 2,
            }
        } else {
            match parse_enum_raw(ENUM_KEYS[d - TYPE_KEYS.len()], input) {
                Ok(dbg) => fnv(dbg.as_bytes()) ^ 1,
                Err(e) => fnv(e.as_bytes()) ^ 2,
            }
        }
    })
}

// ---------------------------------------------------------------- workload (deterministic; identical in both builds)

struct Corpus {
    /// (type index, canonical encoding, chunk tree)
    items: Vec<(usize, Vec<u8>, Option<Node>)>,
}

fn build_corpus(schema: &Schema, seed: u64, per_type: usize, repo: &str) -> Corpus {
    build_corpus_filtered(schema, seed, per_type, repo, &|_| true, usize::MAX)
}

fn build_corpus_filtered(schema: &Schema, seed: u64, per_type: usize, repo: &str, keep: &dyn Fn(usize) -> bool, max_blob: usize) -> Corpus {
    let codec = Codec::new(schema);
    let gen = Gen::new(schema, GenCfg { big: false, stray_pct: 0 });
    let mut items = vec![];
    for (ti, key) in TYPE_KEYS.iter().enumerate() {
        if !keep(ti) {
            continue;
        }
        let def = schema.get(key);
        let mut rng = Rng::derive(seed, 0xC02 ^ fnv(key.as_bytes()));
        let mut got = 0;
        let mut tries = 0;
        while got < per_type && tries < per_type * 30 {
            tries += 1;
            let presence = match got {
                0 => Presence::AllPresent,
                1 => Presence::AllAbsent,
                _ => Presence::Random,
            };
            let v = gen.gen_struct(&mut rng, def, presence, 0);
            if let Ok(b) = codec.canonical(def, &v) {
                if b.len() <= 1200 {
                    let tree = codec.enc_top(def, &v).ok();
                    items.push((ti, b, tree));
                    got += 1;
                } else if presence != Presence::Random {
                    got += 1;
                }
            } else if presence != Presence::Random {
                got += 1; // systematic mask not canonical for this type
            }
        }
    }
    // the repository's captured packets
    let mut names: Vec<_> = std::fs::read_dir(format!("{repo}/zvt/data")).map(|d| d.filter_map(|e| e.ok()).map(|e| e.path()).collect()).unwrap_or_default();
    names.sort();
    for p in names {
        if let Ok(bytes) = std::fs::read(&p) {
            if bytes.len() < 2 {
                continue;
            }
            for (ti, key) in TYPE_KEYS.iter().enumerate() {
                if keep(ti) && bytes.len() <= max_blob && schema.get(key).cf == Some((bytes[0], bytes[1])) {
                    items.push((ti, bytes.clone(), None));
                }
            }
        }
    }
    Corpus { items }
}

fn count_nodes(n: &Node) -> usize {
    1 + match &n.payload {
        Payload::Struct(s) => s.positional.iter().map(count_nodes).sum::<usize>() + s.groups.iter().flat_map(|g| g.elems.iter()).map(count_nodes).sum::<usize>(),
        Payload::Leaf(_) => 0,
    }
}

/// Apply `f` to the `idx`-th node of the tree in depth-first order.
fn with_node_mut(n: &mut Node, idx: &mut usize, f: &mut dyn FnMut(&mut Node)) -> bool {
    if *idx == 0 {
        f(n);
        return true;
    }
    *idx -= 1;
    if let Payload::Struct(s) = &mut n.payload {
        for c in s.positional.iter_mut() {
            if with_node_mut(c, idx, f) {
                return true;
            }
        }
        for g in s.groups.iter_mut() {
            for c in g.elems.iter_mut() {
                if with_node_mut(c, idx, f) {
                    return true;
                }
            }
        }
    }
    false
}

fn mutate_node(node: &mut Node, rng: &mut Rng) {
    let plen = match &node.payload {
        Payload::Leaf(b) => b.len(),
        Payload::Struct(s) => s.bytes().map(|b| b.len()).unwrap_or(0),
    };
    match rng.below(15) {
        0 => node.prefix_override = Some(vec![0x81]),
        1 => node.prefix_override = Some(vec![0x82]),
        2 => node.prefix_override = Some(vec![0x82, rng.byte()]),
        3 => node.prefix_override = Some(vec![0xff]),
        4 => node.prefix_override = Some(vec![0xff, rng.byte()]),
        5 => {
            // announce more / less than there is, in the style's own form
            let wrong = if rng.chance(1, 2) { plen + 1 + rng.below(300) as usize } else { plen.saturating_sub(1 + rng.below(3) as usize) };
            node.prefix_override = Some(match (&node.len, node.apdu) {
                (_, true) => refcodec::codec::apdu_len(wrong.min(65535)).unwrap(),
                (Len::Ll, _) => refcodec::codec::llvar(wrong.min(99), 2).unwrap(),
                (Len::Lll, _) => refcodec::codec::llvar(wrong.min(999), 3).unwrap(),
                _ => ber_len(wrong.min(65535)).unwrap(),
            });
        }
        6 => {
            // digit overflow: far more BCD digits than any integer can hold, or just above the maximum of a width
            if rng.chance(1, 2) {
                let n = 1 + rng.below(24) as usize;
                node.payload = Payload::Leaf(vec![0x99; n]);
            } else {
                let max = *rng.pick(&[255u128, 65535, u32::MAX as u128, u64::MAX as u128]);
                let mut b = bcd_bytes(max + rng.below(120) as u128);
                for _ in 0..rng.below(3) {
                    b.insert(0, 0);
                }
                if rng.chance(1, 4) {
                    let l = b.len() - 1;
                    b[l] |= 0x0f;
                }
                node.payload = Payload::Leaf(b);
            }
        }
        7 => {
            // F nibbles / non-digits
            let n = rng.below(12) as usize;
            node.payload = Payload::Leaf((0..n).map(|_| *rng.pick(&[0xffu8, 0x9f, 0xf9, 0xaa, 0x0f, 0xf0, 0x12])).collect());
        }
        8 => {
            // calendar values (date-time TLVs) with impossible components
            let date = rng.below(10000) as u128 * 10000 + rng.below(20) as u128 * 100 + rng.below(40) as u128;
            let time = rng.below(30) as u128 * 10000 + rng.below(100) as u128 * 100 + rng.below(100) as u128;
            let (db, tb) = if rng.chance(1, 6) { (vec![0x99; 12], vec![0x99; 6]) } else { (bcd_bytes(date), bcd_bytes(time)) };
            let mut p = vec![0x1f, 0x0e];
            p.extend(ber_len(db.len()).unwrap());
            p.extend(db);
            if !rng.chance(1, 8) {
                p.extend([0x1f, 0x0f]);
                p.extend(ber_len(tb.len()).unwrap());
                p.extend(tb);
            }
            if rng.chance(1, 8) {
                p.extend([0x1f, 0x0e, 0x01, 0x01]);
            }
            node.payload = Payload::Leaf(p);
        }
        9 => {
            // tag splice
            node.tag = match rng.below(4) {
                0 => vec![0x1f],
                1 => vec![0xff],
                2 => vec![0x1f, rng.byte()],
                _ => vec![rng.byte()],
            };
        }
        10 => {
            if let Payload::Struct(s) = &mut node.payload {
                if !s.groups.is_empty() {
                    let i = rng.below(s.groups.len() as u64) as usize;
                    let g = s.groups[i].clone();
                    match rng.below(3) {
                        0 => s.groups.push(g),
                        1 => {
                            s.groups.remove(i);
                        }
                        _ => s.groups.insert(0, g),
                    }
                }
            }
        }
        11 => {
            let n = rng.below(9) as usize;
            node.payload = Payload::Leaf(rng.bytes(n));
        }
        12 => node.payload = Payload::Leaf(vec![]),
        13 => {
            // one more entry at the end of this element's content: a tag (unknown 1F xx, a random one, or one the
            // schema knows), a length that is honest or off by a few bytes against what really follows, then data.
            // The enclosing lengths stay honest, so the element is reached with a complete-looking container.
            let mut p = match &node.payload {
                Payload::Leaf(b) => b.clone(),
                Payload::Struct(s) => s.bytes().unwrap_or_default(),
            };
            match rng.below(4) {
                0 | 1 => p.extend([0x1f, rng.byte()]),
                2 => p.push(rng.byte()),
                _ => p.extend(*rng.pick(&[&[0x1f, 0x0e][..], &[0x1f, 0x0f], &[0x1f, 0x10], &[0x07], &[0x60], &[0x34], &[0x1f, 0x80, 0x00]])),
            }
            let l = *rng.pick(&[0usize, 1, 2, 3, 4, 6, 127, 128, 255, 256]);
            let delta: i64 = *rng.pick(&[-1, -1, -1, -2, -3, 0, 0, 1, 2]);
            p.extend(ber_len(l).unwrap());
            let have = (l as i64 + delta).max(0) as usize;
            p.extend((0..have).map(|i| 0x20 + (i % 64) as u8));
            node.payload = Payload::Leaf(p);
        }
        _ => {
            if let Payload::Leaf(b) = &mut node.payload {
                if !b.is_empty() {
                    let i = rng.below(b.len() as u64) as usize;
                    b[i] = rng.byte();
                }
            }
        }
    }
}

/// One structure-aware mutation of a chunk tree; returns the hostile bytes.
fn mutate_tree(tree: &Node, rng: &mut Rng) -> Option<Vec<u8>> {
    let mut t = tree.clone();
    let n_mut = 1 + rng.below(2);
    for _ in 0..n_mut {
        let total = count_nodes(&t);
        let mut idx = rng.below(total as u64) as usize;
        let mut rng2 = Rng::derive(rng.next(), 1);
        with_node_mut(&mut t, &mut idx, &mut |node: &mut Node| mutate_node(node, &mut rng2));
    }
    let mut bytes = t.bytes().or_else(|| tree.bytes())?;
    // cut inside (nested containers cut in the middle), sometimes
    if rng.chance(1, 5) && bytes.len() > 3 {
        let cut = 3 + rng.below((bytes.len() - 3) as u64) as usize;
        bytes.truncate(cut);
    }
    Some(bytes)
}

struct Sink<'a> {
    f: &'a mut dyn FnMut(usize, &[u8], &str),
}

/// Enumerate this shard's part of the workload.  `emit(decoder, input, part)`.
fn workload(schema: &Schema, corpus: &Corpus, quick: bool, seed: u64, shard: usize, nshards: usize, sink: &mut Sink) {
    let nd = n_decoders();
    // (i) exhaustive: every input of length <= 2; cf cf len body for every body of length <= 2
    for d in (0..nd).filter(|d| d % nshards == shard) {
        (sink.f)(d, &[], "short");
        for a in 0..256usize {
            (sink.f)(d, &[a as u8], "short");
            for b in 0..256usize {
                (sink.f)(d, &[a as u8, b as u8], "short");
            }
        }
        let cfs: Vec<(u8, u8)> = if d < TYPE_KEYS.len() {
            schema.get(TYPE_KEYS[d]).cf.into_iter().collect()
        } else {
            REPLY_ENUMS[d - TYPE_KEYS.len()].variants.iter().filter_map(|(_, k)| schema.get(k).cf).collect()
        };
        for (c, i) in cfs {
            (sink.f)(d, &[c, i, 0], "cf-body");
            (sink.f)(d, &[c, i, 1], "cf-body");
            for a in 0..256usize {
                (sink.f)(d, &[c, i, 1, a as u8], "cf-body");
                (sink.f)(d, &[c, i, 2, a as u8], "cf-body");
                for b in 0..256usize {
                    (sink.f)(d, &[c, i, 2, a as u8, b as u8], "cf-body");
                }
            }
        }
    }
    // decoders a corpus packet is sent through: its own type, and (for packets) every reply enum
    let enum_ds: Vec<usize> = (TYPE_KEYS.len()..nd).collect();
    let through = |ti: usize, f: &mut dyn FnMut(usize)| {
        f(ti);
        if schema.get(TYPE_KEYS[ti]).cf.is_some() {
            for e in &enum_ds {
                f(*e);
            }
        }
    };
    // (ii) corpus: itself, every truncation, every single-byte substitution
    let max_off = if quick { 96 } else { 1200 };
    let corpus_n = if quick { corpus.items.len().min(64 + 64) } else { corpus.items.len() };
    // quick: a seed-dependent sample of the corpus
    let mut order: Vec<usize> = (0..corpus.items.len()).collect();
    Rng::derive(seed, 0xC0F).shuffle(&mut order);
    for (k, &ci) in order.iter().take(corpus_n).enumerate() {
        if k % nshards != shard {
            continue;
        }
        let (ti, bytes, _) = &corpus.items[ci];
        through(*ti, &mut |d| (sink.f)(d, bytes, "corpus"));
        for cut in 0..bytes.len() {
            through(*ti, &mut |d| (sink.f)(d, &bytes[..cut], "truncation"));
        }
        let mut m = bytes.clone();
        for off in 0..bytes.len().min(max_off) {
            let orig = m[off];
            for v in 0..256usize {
                if v as u8 == orig {
                    continue;
                }
                m[off] = v as u8;
                // own decoder always; the enums for a sample of values (they only look at cf + the same decoder)
                (sink.f)(*ti, &m, "substitution");
                if off < 3 || v % 64 == 0 {
                    if schema.get(TYPE_KEYS[*ti]).cf.is_some() {
                        for e in &enum_ds {
                            (sink.f)(*e, &m, "substitution");
                        }
                    }
                }
            }
            m[off] = orig;
        }
    }
    // (iii) structure-aware random mutants
    let n_mut: u64 = if quick { 1_500_000 } else { 12_000_000 };
    let with_tree: Vec<usize> = (0..corpus.items.len()).filter(|i| corpus.items[*i].2.is_some()).collect();
    let mut rng = Rng::derive(seed, 0xC02_0000 + shard as u64);
    for _ in 0..n_mut / nshards as u64 {
        let ci = with_tree[rng.below(with_tree.len() as u64) as usize];
        let (ti, _, tree) = &corpus.items[ci];
        if let Some(bytes) = mutate_tree(tree.as_ref().unwrap(), &mut rng) {
            (sink.f)(*ti, &bytes, "structure-aware");
            if rng.chance(1, 4) && schema.get(TYPE_KEYS[*ti]).cf.is_some() {
                let e = enum_ds[rng.below(enum_ds.len() as u64) as usize];
                (sink.f)(e, &bytes, "structure-aware");
            }
        }
    }
    // a few large inputs up to the 64 KiB APDU limit
    let big_n = if quick { 40 } else { 600 };
    for k in 0..big_n {
        if k % nshards != shard {
            continue;
        }
        let mut rng = Rng::derive(seed, 0xB16 + k as u64);
        let d = rng.below(nd as u64) as usize;
        let cfs: Vec<(u8, u8)> = if d < TYPE_KEYS.len() { schema.get(TYPE_KEYS[d]).cf.into_iter().collect() } else { REPLY_ENUMS[d - TYPE_KEYS.len()].variants.iter().filter_map(|(_, k)| schema.get(k).cf).collect() };
        let body_len = *rng.pick(&[254usize, 255, 256, 4096, 65535, 65534, 30000]);
        let fill = *rng.pick(&[0x00u8, 0x99, 0xff, 0x60, 0x06, 0x07]);
        let mut body = vec![fill; body_len];
        if rng.chance(1, 2) {
            // many two-byte elements "60 00" / "07 00": amplification probe
            for (i, b) in body.iter_mut().enumerate() {
                *b = if i % 2 == 0 { fill } else { 0 };
            }
        }
        let mut input = vec![];
        if let Some((c, i)) = cfs.first() {
            input.extend([*c, *i]);
            input.extend(refcodec::codec::apdu_len(body.len()).unwrap());
        }
        input.extend(body);
        (sink.f)(d, &input, "large");
    }
}

// ---------------------------------------------------------------- watchdog

static WD_PTR: [AtomicPtr<u8>; 64] = [const { AtomicPtr::new(std::ptr::null_mut()) }; 64];
static WD_LEN: [AtomicUsize; 64] = [const { AtomicUsize::new(0) }; 64];
static WD_DEC: [AtomicUsize; 64] = [const { AtomicUsize::new(0) }; 64];
static WD_SEQ: [AtomicU64; 64] = [const { AtomicU64::new(0) }; 64];
static WD_DONE: AtomicBool = AtomicBool::new(false);

const STALL_SECS: u64 = 10;

/// CPU seconds (user + system) a process has used so far, and its resident set in KiB (None once it is gone).
fn proc_cpu_and_rss(pid: u32) -> Option<(f64, u64)> {
    let stat = std::fs::read_to_string(format!("/proc/{pid}/stat")).ok()?;
    // the command name (field 2) may contain spaces: count from the closing parenthesis
    let rest = &stat[stat.rfind(')')? + 2..];
    let f: Vec<&str> = rest.split_whitespace().collect();
    let ticks: u64 = f.get(11)?.parse::<u64>().ok()? + f.get(12)?.parse::<u64>().ok()?; // utime, stime
    let rss_pages: u64 = f.get(21)?.parse().ok()?;
    Some((ticks as f64 / 100.0, rss_pages * 4))
}

/// Confirmation of a suspected "no progress": the same decode alone in a fresh process.  The verdict does not depend on
/// the wall clock: the decode is not coming back when the fresh process has *used* `STALL_SECS` seconds of CPU time on it
/// (a decode of a few bytes needs microseconds) or has grown beyond 2 GiB; a process that gets no CPU time (machine
/// stalled) proves nothing, however long it takes.
enum Confirm {
    Finished,
    /// (reason)
    DoesNotComeBack(String),
    /// neither finished nor used the CPU time within a generous wall-clock limit
    Undecided,
}

fn confirm_alone(d: usize, input: &[u8]) -> Confirm {
    confirm_alone_with(&std::env::current_exe().unwrap().display().to_string(), d, input)
}

fn confirm_alone_with(exe: &str, d: usize, input: &[u8]) -> Confirm {
    let mut child = std::process::Command::new(exe).arg("c02-one").arg(d.to_string()).arg(hex(input)).stdout(std::process::Stdio::null()).spawn().expect("spawn");
    let t0 = std::time::Instant::now();
    let verdict = loop {
        if let Ok(Some(_)) = child.try_wait() {
            break Confirm::Finished;
        }
        if let Some((cpu, rss_kb)) = proc_cpu_and_rss(child.id()) {
            if cpu >= STALL_SECS as f64 {
                break Confirm::DoesNotComeBack(format!("alone in a fresh process it has used {cpu:.0} s of CPU time without returning"));
            }
            if rss_kb > (2 << 20) {
                break Confirm::DoesNotComeBack(format!("alone in a fresh process its resident set passed 2 GiB ({} MiB) without returning", rss_kb >> 10));
            }
        }
        if t0.elapsed().as_secs() > 600 {
            break Confirm::Undecided;
        }
        std::thread::sleep(std::time::Duration::from_millis(50));
    };
    let _ = child.kill();
    let _ = child.wait();
    verdict
}

fn watchdog_thread(nshards: usize, tier: String, seed: u64) {
    let mut last: Vec<(u64, std::time::Instant)> = (0..nshards).map(|_| (u64::MAX, std::time::Instant::now())).collect();
    let mut overruns_that_finished_alone = 0u32;
    while !WD_DONE.load(Ordering::Relaxed) {
        std::thread::sleep(std::time::Duration::from_millis(100));
        // memory running away is a trigger of its own: sixteen workers that allocate without end fill the machine
        // long before any of them has been inside one call for ten seconds
        let rss_kb = refcodec::runaway::rss_kb();
        let memory_alarm = rss_kb > (3 << 20);
        if memory_alarm {
            // every worker goes on allocating while a confirmation runs: end this process now, with the calls in flight
            // in a file; `./check` runs `zvtmon runaway-confirm C02 <file>`, which tries each of them alone
            let mut suspects = vec![];
            for s in 0..nshards {
                let seq = WD_SEQ[s].load(Ordering::Acquire);
                if seq % 2 == 1 && last[s].0 == seq && last[s].1.elapsed().as_millis() >= 200 {
                    let p = WD_PTR[s].load(Ordering::Acquire);
                    let n = WD_LEN[s].load(Ordering::Acquire);
                    let d = WD_DEC[s].load(Ordering::Acquire);
                    let input: Vec<u8> = unsafe { std::slice::from_raw_parts(p, n) }.to_vec();
                    suspects.push(json!({"decoder": d, "name": decoder_name(d), "bytes": hex(&input), "inside_the_call_for_ms": last[s].1.elapsed().as_millis() as u64}));
                }
            }
            if !suspects.is_empty() {
                let j = json!({"reason": format!("the resident set has grown to {} MiB", rss_kb >> 10), "suspects": suspects});
                let _ = std::fs::write(crate::codecprops::runaway_file("C02"), j.to_string());
                std::process::exit(refcodec::runaway::EXIT_RUNAWAY);
            }
        }
        for s in 0..nshards {
            let seq = WD_SEQ[s].load(Ordering::Acquire);
            if seq % 2 == 0 {
                last[s] = (seq, std::time::Instant::now()); // between calls
                continue;
            }
            if last[s].0 != seq {
                last[s] = (seq, std::time::Instant::now());
                continue;
            }
            if last[s].1.elapsed().as_secs() >= STALL_SECS {
                // the worker has been inside one decode call for >= 10 s; its input buffer is stable
                let p = WD_PTR[s].load(Ordering::Acquire);
                let n = WD_LEN[s].load(Ordering::Acquire);
                let d = WD_DEC[s].load(Ordering::Acquire);
                let input: Vec<u8> = unsafe { std::slice::from_raw_parts(p, n) }.to_vec();
                let why = if memory_alarm { format!("the resident set has grown to {} MiB", rss_kb >> 10) } else { format!("it has not returned for {STALL_SECS} s") };
                eprintln!("C02 watchdog: decoder {} on a {n}-byte input: {why}; confirming in a fresh process", decoder_name(d));
                let verdict = confirm_alone(d, &input);
                if let (Confirm::Finished, false) = (&verdict, memory_alarm) {
                    // slow once, fine alone: the machine was busy.  Go on (a worker that is really stuck is met again).
                    overruns_that_finished_alone += 1;
                    last[s] = (seq, std::time::Instant::now());
                    if overruns_that_finished_alone < 50 {
                        continue;
                    }
                }
                let mut r = Report::new("C02", &tier, seed, "exploration");
                r.rule = "aborted by the progress watchdog".into();
                r.evaluations = 1;
                match verdict {
                    Confirm::DoesNotComeBack(how) => r.violation(
                        &format!("{}: no progress", decoder_name(d)),
                        &format!("decoding a {n}-byte input does not come back: in the run {why}; {how}"),
                        json!({"kind": "decode", "decoder": decoder_name(d), "bytes": hex(&input)}),
                    ),
                    Confirm::Finished => r.inconclusive(&format!("decodes by {} overran again and again in the run ({why}) but finish when re-run alone (machine load?)", decoder_name(d))),
                    Confirm::Undecided => r.inconclusive(&format!("a decode of {n} bytes by {} did not return in the run ({why}); alone in a fresh process it neither finished nor used {STALL_SECS} s of CPU time within ten minutes (machine stalled?)", decoder_name(d))),
                }
                let code = r.finish();
                // the release-build children may be running away as well
                std::process::exit(code);
            }
        }
    }
}

/// `zvtmon runaway-confirm C02 <file>`: the run ended itself because memory ran away; every decode that was in flight is
/// tried alone in a fresh process.
pub fn confirm_file(ctx: &Ctx, file: &str) -> i32 {
    let mut r = ctx.report("C02", "exploration");
    r.rule = "the run ended itself because its memory ran away; every decode that was in flight is run again alone in a fresh process: one that uses 10 s of CPU time or grows beyond 2 GiB without returning is a violation, none => inconclusive".into();
    r.evaluations = 1;
    let text = std::fs::read_to_string(file).unwrap_or_default();
    let _ = std::fs::remove_file(file);
    let j: serde_json::Value = serde_json::from_str(&text).unwrap_or_default();
    let reason = j["reason"].as_str().unwrap_or("?").to_string();
    let mut confirmed = 0;
    let mut seen = std::collections::BTreeSet::new();
    for sus in j["suspects"].as_array().cloned().unwrap_or_default() {
        let (Some(d), Some(hexs)) = (sus["decoder"].as_u64(), sus["bytes"].as_str()) else { continue };
        if !seen.insert((d, hexs.to_string())) || seen.len() > 16 {
            continue;
        }
        let input = refcodec::unhex(hexs).unwrap_or_default();
        if let Confirm::DoesNotComeBack(how) = confirm_alone(d as usize, &input) {
            confirmed += 1;
            r.violation(
                &format!("{}: no progress", decoder_name(d as usize)),
                &format!("decoding a {}-byte input does not come back: in the run {reason}; {how}", input.len()),
                json!({"kind": "decode", "decoder": decoder_name(d as usize), "bytes": hexs}),
            );
        }
    }
    if confirmed == 0 {
        r.inconclusive(&format!("the run ended itself ({reason}); none of the decodes in flight did it again alone"));
    }
    r.finish()
}

// ---------------------------------------------------------------- entry points

fn repo_path() -> String {
    std::env::var("VERIF_REPO_PATH").unwrap_or_else(|_| "/repo".into())
}

fn digest_suspect_file(shard: usize) -> String {
    let work = std::env::var("VERIF_WORK").unwrap_or_else(|_| "/verif/.build/main".into());
    format!("{work}/c02-release-suspect-{shard}.json")
}

fn parent_pid() -> u32 {
    std::fs::read_to_string("/proc/self/status").ok().and_then(|t| t.lines().find(|l| l.starts_with("PPid:")).and_then(|l| l[5..].trim().parse().ok())).unwrap_or(0)
}

/// Child (plain release build): run shard `k` of the same workload and stream one digest per input.
pub fn digest_server() -> i32 {
    let args: Vec<String> = std::env::args().collect();
    let quick = args[2] == "quick";
    let seed: u64 = args[3].parse().unwrap();
    let shard: usize = args[4].parse().unwrap();
    let nshards: usize = args[5].parse().unwrap();
    // a decode that does not come back in *this* build: the digests computed so far sit in the output buffer, so the
    // parent would wait for them for ever.  This process watches its own worker: inside one call for 10 s, or the
    // resident set beyond 1 GiB => the call in flight goes into a file and the process ends with exit code 3; the
    // parent (which sees the digest stream end) tries that decode alone with this binary and gives the verdict.  It also
    // ends when its parent is gone.
    let suspect_file = digest_suspect_file(shard);
    let _ = std::fs::remove_file(&suspect_file);
    let ppid0 = parent_pid();
    std::thread::spawn(move || {
        let mut last: (u64, std::time::Instant) = (u64::MAX, std::time::Instant::now());
        loop {
            std::thread::sleep(std::time::Duration::from_millis(100));
            if parent_pid() != ppid0 {
                std::process::exit(0);
            }
            let seq = WD_SEQ[0].load(Ordering::Acquire);
            if seq % 2 == 0 || last.0 != seq {
                last = (seq, std::time::Instant::now());
                continue;
            }
            let memory = refcodec::runaway::rss_kb() > (1 << 20);
            if last.1.elapsed().as_secs() >= STALL_SECS || (memory && last.1.elapsed().as_millis() >= 200) {
                let p = WD_PTR[0].load(Ordering::Acquire);
                let n = WD_LEN[0].load(Ordering::Acquire);
                let d = WD_DEC[0].load(Ordering::Acquire);
                let input: Vec<u8> = unsafe { std::slice::from_raw_parts(p, n) }.to_vec();
                let why = if memory { format!("the resident set has grown to {} MiB", refcodec::runaway::rss_kb() >> 10) } else { format!("it has not returned for {STALL_SECS} s") };
                let _ = std::fs::write(&suspect_file, json!({"decoder": d, "bytes": hex(&input), "reason": why}).to_string());
                std::process::exit(refcodec::runaway::EXIT_RUNAWAY);
            }
        }
    });
    let schema = refcodec::zvt_schema();
    let corpus = build_corpus(&schema, seed, if quick { 8 } else { 24 }, &repo_path());
    let out = std::io::stdout();
    let mut w = std::io::BufWriter::with_capacity(1 << 20, out.lock());
    let mut emit = |d: usize, input: &[u8], _part: &str| {
        WD_PTR[0].store(input.as_ptr() as *mut u8, Ordering::Release);
        WD_LEN[0].store(input.len(), Ordering::Release);
        WD_DEC[0].store(d, Ordering::Release);
        WD_SEQ[0].fetch_add(1, Ordering::AcqRel); // odd: inside a call
        let res = decode(d, input);
        WD_SEQ[0].fetch_add(1, Ordering::AcqRel); // even: between calls
        let digest = match res {
            Ok(h) => h,
            Err(p) => fnv(panic_signature(&p).as_bytes()) ^ 3,
        };
        let _ = w.write_all(&digest.to_le_bytes());
    };
    workload(&schema, &corpus, quick, seed, shard, nshards, &mut Sink { f: &mut emit });
    let _ = w.flush();
    0
}

pub fn run(ctx: &Ctx) -> i32 {
    let mut report = ctx.report("C02", "exploration");
    if let Some(path) = &ctx.replay {
        let text = std::fs::read_to_string(path).expect("replay file");
        let v: serde_json::Value = serde_json::from_str(&text).expect("json");
        let case = &v["case"];
        if case["kind"] == "calendar-number" {
            use zvt_builder::encoding::{Default as Dflt, Encoding};
            use zvt_builder::ZvtSerializer;
            let container = refcodec::unhex(case["container"].as_str().unwrap_or("")).unwrap_or_default();
            let packet = refcodec::unhex(case["packet"].as_str().unwrap_or("")).unwrap_or_default();
            println!("replay C02: date entry {} time entry {}", case["date_written"], case["time_written"]);
            println!("  Default<NaiveDateTime>.decode({}) = {:?}", hex(&container), guarded(|| <Dflt as Encoding<chrono::NaiveDateTime>>::decode(&container).map(|(v, r)| (v, r.len())).map_err(|e| format!("{e:?}"))));
            println!("  ReceiptPrintoutCompletion({}) = {:?}", hex(&packet), guarded(|| zvt::packets::ReceiptPrintoutCompletion::zvt_deserialize(&packet).map(|(v, r)| (format!("{v:?}"), r.len())).map_err(|e| format!("{e:?}"))));
            return 0;
        }
        let Some(name) = case["decoder"].as_str() else {
            println!("replay C02: this case is not a decoder input; it is described by its fields: {case}");
            return 0;
        };
        let d = (0..n_decoders()).find(|d| decoder_name(*d) == name).unwrap();
        let bytes = refcodec::unhex(case["bytes"].as_str().unwrap()).unwrap();
        alloc_window_start();
        let res = decode(d, &bytes);
        println!("replay C02: decoder {name}, {} bytes -> {:?}, peak allocation {} bytes", bytes.len(), res, alloc_window_peak());
        return 0;
    }
    report.rule = "72 decoders (55 struct types, 17 reply enums). (i) exhaustive: every input of length <= 2 and cf,cf,len,body for every body of length <= 2; (ii) corpus of reference encodings of canonical values (>= 8 per type) + the repository's captured packets: every truncation and every single-byte substitution (256 values per offset; quick: offsets < 96 of a seed-dependent sample of 128 packets), each through the packet's own decoder and the reply enums; (iii) structure-aware random mutants of the reference chunk trees (length-prefix forms 81/82/82xx/FF/too long/too short, tag splices, BCD digit overflow, F nibbles, calendar values month 0-19 day 0-39 hour 0-29, duplicated/dropped groups, cuts inside containers) and large bodies up to 65535 bytes; (iv) the stream reader (PacketTransport::read_packet and the *_with_ack operations) over hostile byte streams: every extended header FF lo hi for all 65536 announced lengths with the stream ending behind the header / inside the body / (boundary lengths and a stride) behind the complete body, every short header likewise, random streams - a packet or an error, never a panic; (v) BER long forms of 1..126 length bytes (zero / non-zero bytes above the low 1, 2, 4, 8, 9, 16 bytes, all FF, random) given to the length parser: an error or exactly the number written, never a wrapped one; (vi) date and time entries of a date/time container written with numbers of up to 24 digits, among them numbers that are a valid date / time of day modulo 2^8 .. 2^65 as a whole or in their year / hour part, through the date/time decoder and through the packet that carries it: an error or exactly the date and time written. Non-trivial = input of >= 1 byte; distinct by hash of (decoder, input) for random parts, by construction for enumerated parts.".into();
    report.exhaustive = Some(false);
    report.assumptions = vec![
        "allocation bound judged: peak live bytes during one decode (Debug rendering of the result included) <= 64 x input length + 16 KiB".into(),
        "no progress = one decode call still running after 10 s in the run (or for 0.3 s while the resident set is beyond 3 GiB), and the same decode alone in a fresh process using 10 s of CPU time, or growing beyond 2 GiB, without returning; a decode that is slow in the run but finishes alone is the machine's load, not a verdict".into(),
        "debug/release differential: the plain release build of the same harness executes the identical workload; digests of Ok(Debug, remainder) | Err(variant) are compared input by input".into(),
    ];
    let schema = refcodec::zvt_schema();
    let quick = ctx.quick();
    let seed = ctx.seed;
    let corpus = build_corpus(&schema, seed, if quick { 8 } else { 24 }, &repo_path());
    report.extra.insert("corpus_packets".into(), json!(corpus.items.len()));
    report.extra.insert("decoders".into(), json!(n_decoders()));
    let nshards = ctx.threads.min(64);
    let rel_bin = std::env::var("VERIF_REL_BIN").ok().filter(|p| std::path::Path::new(p).exists());
    if rel_bin.is_none() {
        report.inconclusive("release-profile binary not available (VERIF_REL_BIN): debug/release differential not run");
    }
    let tier = ctx.tier.clone();
    let wd = std::thread::spawn(move || watchdog_thread(nshards, tier, seed));
    sharded(&mut report, nshards, |shard, r| {
        let mut child = rel_bin.as_ref().map(|bin| {
            std::process::Command::new(bin)
                .arg("c02-digest-server")
                .arg(if quick { "quick" } else { "thorough" })
                .arg(seed.to_string())
                .arg(shard.to_string())
                .arg(nshards.to_string())
                .stdout(std::process::Stdio::piped())
                .stderr(std::process::Stdio::null())
                .spawn()
                .expect("spawn release-profile digest server")
        });
        let mut rd = child.as_mut().map(|c| BufReader::with_capacity(1 << 20, c.stdout.take().unwrap()));
        let mut max_ratio_num: usize = 0;
        let mut max_peak: usize = 0;
        let mut release_dead = false;
        let _ = std::fs::remove_file(digest_suspect_file(shard));
        let mut emit = |d: usize, input: &[u8], part: &str| {
            WD_PTR[shard].store(input.as_ptr() as *mut u8, Ordering::Release);
            WD_LEN[shard].store(input.len(), Ordering::Release);
            WD_DEC[shard].store(d, Ordering::Release);
            WD_SEQ[shard].fetch_add(1, Ordering::AcqRel); // odd: inside a call
            alloc_window_start();
            let res = decode(d, input);
            let peak = alloc_window_peak();
            WD_SEQ[shard].fetch_add(1, Ordering::AcqRel); // even: between calls
            match part {
                "short" | "cf-body" | "truncation" | "substitution" | "corpus" => r.case_enumerated(!input.is_empty()),
                _ => r.case(fnv(input) ^ (d as u64).wrapping_mul(0x2545F4914F6CDD1D), true),
            }
            r.count(&format!("inputs.{part}"), 1);
            let case = || json!({"kind": "decode", "decoder": decoder_name(d), "bytes": hex(input), "part": part});
            let my_digest = match &res {
                Ok(h) => *h,
                Err(p) => {
                    r.violation(&format!("{}: {}", decoder_name(d), panic_signature(p)), &format!("decoding {} panicked: {p}", if input.len() <= 64 { hex(input) } else { format!("{} bytes", input.len()) }), case());
                    fnv(panic_signature(p).as_bytes()) ^ 3
                }
            };
            // allocation monitor
            // measured on the unchanged tree: at most ~14 KB and at most 17 x the input (Debug rendering of the decoded
            // value included); the bound leaves a factor of four and still sees a 16-bit length turned into a reservation
            let bound = 64 * input.len() + (16 << 10);
            if peak > bound {
                r.violation(&format!("{}: allocation out of proportion", decoder_name(d)), &format!("peak {peak} live bytes while decoding {} input bytes (bound {bound})", input.len()), case());
            }
            if peak > max_peak {
                max_peak = peak;
            }
            let ratio = peak / input.len().max(1);
            if input.len() >= 64 && ratio > max_ratio_num {
                max_ratio_num = ratio;
            }
            // debug/release differential
            if let (Some(rd), false) = (rd.as_mut(), release_dead) {
                let mut buf = [0u8; 8];
                match rd.read_exact(&mut buf) {
                    Ok(()) => {
                        let theirs = u64::from_le_bytes(buf);
                        if theirs != my_digest {
                            r.violation(
                                &format!("{}: overflow-checked and release builds decode differently", decoder_name(d)),
                                &format!("digest {my_digest:016x} (overflow-checked build) vs {theirs:016x} (release build) for {}", if input.len() <= 64 { hex(input) } else { format!("{} bytes", input.len()) }),
                                case(),
                            );
                        } else {
                            r.count("differential_inputs_compared", 1);
                        }
                    }
                    Err(_) => {
                        // the release-build child ended: because one of its decodes did not come back?
                        release_dead = true;
                        let file = digest_suspect_file(shard);
                        let sus = std::fs::read_to_string(&file).ok().and_then(|t| serde_json::from_str::<serde_json::Value>(&t).ok());
                        let _ = std::fs::remove_file(&file);
                        match (sus, rel_bin.as_ref()) {
                            (Some(j), Some(bin)) => {
                                let sd = j["decoder"].as_u64().unwrap_or(0) as usize;
                                let sbytes = refcodec::unhex(j["bytes"].as_str().unwrap_or("")).unwrap_or_default();
                                let why = j["reason"].as_str().unwrap_or("?").to_string();
                                match confirm_alone_with(bin, sd, &sbytes) {
                                    Confirm::DoesNotComeBack(how) => r.violation(
                                        &format!("[release build] {}: no progress", decoder_name(sd)),
                                        &format!("decoding a {}-byte input does not come back in the plain release build: in the run {why}; {how}", sbytes.len()),
                                        json!({"kind": "decode", "decoder": decoder_name(sd), "bytes": hex(&sbytes), "build": "release"}),
                                    ),
                                    _ => r.inconclusive(&format!("the release-build child gave up on a decode by {} ({why}) that finishes when run alone", decoder_name(sd))),
                                }
                            }
                            _ => r.inconclusive("release-profile digest stream ended early (child crashed?)"),
                        }
                    }
                }
            }
            if r.wants_sample() && part == "structure-aware" && input.len() < 60 {
                r.sample(json!({"decoder": decoder_name(d), "input": hex(input), "part": part, "result": match &res { Ok(h) => format!("digest {h:016x}"), Err(_) => "panic".to_string() }}));
            }
        };
        workload(&schema, &corpus, quick, seed, shard, nshards, &mut Sink { f: &mut emit });
        if let Some(mut c) = child {
            drop(rd);
            let _ = c.wait();
        }
        r.count("max_peak_alloc_bytes_shard_sum", 0);
        r.note("max_peak_alloc_bytes", &format!("{max_peak:012}"));
        r.note("max_alloc_ratio_inputs_ge_64", &format!("{max_ratio_num:06}"));
    });
    WD_DONE.store(true, Ordering::Relaxed);
    let _ = wd.join();
    // keep only the maxima of the per-shard notes
    for k in ["max_peak_alloc_bytes", "max_alloc_ratio_inputs_ge_64"] {
        if let Some(s) = report.sets.remove(k) {
            let m = s.iter().max().cloned().unwrap_or_default();
            report.extra.insert(k.into(), json!(m.trim_start_matches('0').parse::<u64>().unwrap_or(0)));
        }
    }
    report.counters.remove("max_peak_alloc_bytes_shard_sum");
    // (v) lengths that do not fit: BER long forms of 1..126 length bytes given straight to the length parser.  Whatever
    //     it supports, it must never hand back a *different* number than the one written (a wrapped or truncated
    //     length): an error, or exactly (number, data).
    {
        use zvt_builder::length::{Length, Tlv};
        sharded(&mut report, nshards, |shard, r| {
            let mut rng = Rng::derive(seed, 0xC02_0F17 + shard as u64);
            let data: Vec<u8> = (0..400u32).map(|i| (i * 7 + 3) as u8).collect();
            for n in (1..=126usize).filter(|n| n % nshards == shard) {
                let mut patterns: Vec<Vec<u8>> = vec![];
                for low in [0usize, 1, 4, 127, 128, 255, 256, 300, 65535] {
                    // zero high bytes, the value in the low bytes
                    let mut z = vec![0u8; n];
                    for k in 0..n.min(8) {
                        z[n - 1 - k] = (low >> (8 * k)) as u8;
                    }
                    patterns.push(z.clone());
                    // the same with one non-zero byte above the low 8 / 4 / 2 / 1 bytes
                    for above in [1usize, 2, 4, 8, 9, 16] {
                        if n > above {
                            let mut h = z.clone();
                            h[n - 1 - above] = 1 + rng.below(255) as u8;
                            patterns.push(h);
                        }
                    }
                    let mut top = z.clone();
                    top[0] |= 0x80;
                    patterns.push(top);
                }
                patterns.push(vec![0xff; n]);
                patterns.push((0..n).map(|_| rng.byte()).collect());
                for lb in patterns {
                    for dl in [0usize, 1, 4, 300, 400] {
                        let mut input = vec![0x80 | n as u8];
                        input.extend(&lb);
                        input.extend(&data[..dl]);
                        r.case_enumerated(true);
                        r.count("inputs.length-does-not-fit", 1);
                        // the number as written (saturating: anything above 2^64 certainly does not fit)
                        let mut written: u128 = 0;
                        let mut huge = false;
                        for b in &lb {
                            if written >> 120 != 0 {
                                huge = true;
                            }
                            written = (written << 8) | *b as u128;
                        }
                        let case = || json!({"kind": "length-prefix", "style": "Tlv", "input_head": hex(&input[..input.len().min(24)]), "length_bytes": n, "data_len": dl});
                        match guarded(|| Tlv::deserialize(&input).map(|(l, rest)| (l, rest.len())).map_err(|e| format!("{e:?}"))) {
                            Err(p) => r.violation(&format!("Tlv.deserialize {}", panic_signature(&p)), &format!("long form with {n} length bytes: {p}"), case()),
                            Ok(Err(_)) => {}
                            Ok(Ok((l, rest))) => {
                                if huge || l as u128 != written || rest != dl {
                                    r.violation("Tlv.deserialize: a length that does not fit is handed back wrapped", &format!("{n} length bytes spelling {}{written:#x}: parsed as length {l} with {rest} data bytes (data present: {dl})", if huge { "more than 2^120, low part " } else { "" }), case());
                                }
                            }
                        }
                    }
                }
            }
        });
    }
    // (vi) calendar numbers that do not fit: the date and time entries of a date/time container written with numbers far
    //      beyond YYYYMMDD / HHMMSS, among them numbers that are a valid date or time of day modulo 2^8 .. 2^64 (as a whole
    //      or in their year / hour part).  An error, or exactly the date and time written - never a wrapped one.
    {
        use chrono::{Datelike, NaiveDateTime, Timelike};
        use zvt_builder::encoding::{Default as Dflt, Encoding};
        use zvt_builder::ZvtSerializer;
        sharded(&mut report, nshards, |shard, r| {
            let mut rng = Rng::derive(seed, 0xC02_CA1E + shard as u64);
            let dates: [u128; 5] = [2024_01_01, 1999_12_31, 1_01_01, 9999_12_31, 2000_02_29];
            let times: [u128; 5] = [12_00_00, 23_59_59, 0, 1, 9_30_15];
            let mut cands: Vec<(u128, u128)> = vec![];
            let mut wide: Vec<(u128, bool)> = vec![];
            for w in [8u32, 16, 31, 32, 33, 63, 64, 65] {
                for k in (1..=6u128).chain((0..6).map(|_| 1 + rng.below(1 << 20) as u128)) {
                    for (i, b) in dates.iter().enumerate() {
                        // the whole number, or only its year part, is valid modulo 2^w
                        wide.push((b + (k << w), true));
                        wide.push((((k << w) + b / 10000) * 10000 + b % 10000, true));
                        let t = times[i];
                        wide.push((t + (k << w), false));
                        wide.push((((k << w) + t / 10000) * 10000 + t % 10000, false));
                    }
                }
            }
            for _ in 0..400 {
                let digits = 7 + rng.below(17) as u32;
                wide.push((rng.next() as u128 * rng.next() as u128 % 10u128.pow(digits), rng.chance(1, 2)));
            }
            for (i, (n, is_date)) in wide.into_iter().enumerate() {
                if n >= 10u128.pow(24) || i % nshards != shard {
                    continue;
                }
                cands.push(if is_date { (n, *rng.pick(&times)) } else { (*rng.pick(&dates), n) });
            }
            for (date, time) in cands {
                let entry = |tag: u8, n: u128, min: usize| {
                    let mut b = bcd_bytes(n);
                    while b.len() < min {
                        b.insert(0, 0);
                    }
                    let mut e = vec![0x1f, tag];
                    e.extend(ber_len(b.len()).unwrap());
                    e.extend(b);
                    e
                };
                let mut container = entry(0x0e, date, 4);
                container.extend(entry(0x0f, time, 3));
                // the same container inside the packet that carries it
                let mut tlv = vec![0x34];
                tlv.extend(ber_len(container.len()).unwrap());
                tlv.extend(&container);
                let mut packet = vec![0x06, 0x0f, (6 + tlv.len()) as u8, 0xf0, 0xf0, 0x00, 0x06];
                packet.extend(ber_len(tlv.len()).unwrap());
                packet.extend(&tlv);
                r.case_enumerated(true);
                r.count("inputs.calendar-number-does-not-fit", 1);
                let case = || json!({"kind": "calendar-number", "date_written": date.to_string(), "time_written": time.to_string(), "container": hex(&container), "packet": hex(&packet)});
                let judge = |r: &mut Report, via: &str, got: Result<Option<NaiveDateTime>, String>| {
                    if let Ok(Some(dt)) = got {
                        let d = dt.year() as i128 * 10000 + dt.month() as i128 * 100 + dt.day() as i128;
                        let t = dt.hour() as u128 * 10000 + dt.minute() as u128 * 100 + dt.second() as u128;
                        if d != date as i128 || t != time {
                            r.violation("date/time: a number that does not fit a calendar field is handed back wrapped", &format!("{via}: date entry {date}, time entry {time} decoded as {dt:?}"), case());
                        }
                    }
                };
                match guarded(|| <Dflt as Encoding<NaiveDateTime>>::decode(&container).map(|(v, _)| Some(v)).map_err(|e| format!("{e:?}"))) {
                    Err(p) => r.violation(&format!("Default<NaiveDateTime>.decode {}", panic_signature(&p)), &format!("date {date} time {time}: {p}"), case()),
                    Ok(got) => judge(r, "Default<NaiveDateTime>.decode", got),
                }
                match guarded(|| zvt::packets::ReceiptPrintoutCompletion::zvt_deserialize(&packet).map(|(v, _)| v.tlv.and_then(|t| t.date_time)).map_err(|e| format!("{e:?}"))) {
                    Err(p) => r.violation(&format!("ReceiptPrintoutCompletion {}", panic_signature(&p)), &format!("date {date} time {time}: {p}"), case()),
                    Ok(got) => judge(r, "ReceiptPrintoutCompletion", got),
                }
            }
        });
    }
    // (iv) the stream reader of zvt/src/io.rs in front of the decoders
    sharded(&mut report, nshards, |shard, r| crate::c04::hostile_transport(r, shard, nshards, seed, quick));
    if !quick && std::env::var("VERIF_NO_MIRI").is_err() {
        miri_tier(&mut report, "c02", 16, 150, seed);
    }
    report.finish()
}

/// `zvtmon c02-one <decoder index> <hex>`: one decode in a fresh process (watchdog confirmation).
pub fn one() -> i32 {
    let args: Vec<String> = std::env::args().collect();
    let d: usize = args[2].parse().unwrap();
    let bytes = refcodec::unhex(&args[3]).unwrap();
    let _ = decode(d, &bytes);
    0
}

/// Down-scaled slices of the C02 / C04 / C16 / C17 workloads for the Miri interpreter
/// (`cargo +nightly miri run -p zvtmon -- miri-slice <kind> <n> <shard>`).
pub fn miri_slice(ctx: &Ctx) -> i32 {
    let kind = ctx.args.first().cloned().unwrap_or_else(|| "c02".into());
    let n: usize = ctx.args.get(1).and_then(|s| s.parse().ok()).unwrap_or(100);
    let shard: usize = ctx.args.get(2).and_then(|s| s.parse().ok()).unwrap_or(0);
    let mut r = Report::new(&kind.to_uppercase(), "thorough", ctx.seed, "exploration");
    let mut ops = 0usize;
    match kind.as_str() {
        "c02" => {
            let schema = refcodec::zvt_schema();
            // each interpreter process takes a slice of the types (building the corpus is the slow part under Miri)
            let corpus = build_corpus_filtered(&schema, ctx.seed, 2, &repo_path(), &|ti| ti % 16 == shard % 16, 200);
            let mut rng = Rng::derive(ctx.seed, 0x3141 + shard as u64);
            let with_tree: Vec<usize> = (0..corpus.items.len()).filter(|i| corpus.items[*i].2.is_some()).collect();
            while ops < n {
                let ci = with_tree[rng.below(with_tree.len() as u64) as usize];
                let (ti, bytes, tree) = &corpus.items[ci];
                let input = if rng.chance(1, 3) { bytes.clone() } else { mutate_tree(tree.as_ref().unwrap(), &mut rng).unwrap_or_else(|| bytes.clone()) };
                if let Err(p) = decode(*ti, &input) {
                    r.violation(&format!("{}: {}", decoder_name(*ti), panic_signature(&p)), &p, json!({"bytes": hex(&input)}));
                }
                if schema.get(TYPE_KEYS[*ti]).cf.is_some() {
                    let e = TYPE_KEYS.len() + rng.below(ENUM_KEYS.len() as u64) as usize;
                    if let Err(p) = decode(e, &input) {
                        r.violation(&format!("{}: {}", decoder_name(e), panic_signature(&p)), &p, json!({"bytes": hex(&input)}));
                    }
                }
                ops += 1;
            }
        }
        "c04" => ops = crate::c04::miri_slice(&mut r, ctx.seed, n, shard),
        "c16" => ops = crate::c16::miri_slice(&mut r, n, shard),
        "c17" => ops = crate::c17::miri_slice(&mut r, ctx.seed, n, shard),
        other => {
            eprintln!("unknown miri slice {other}");
            return 2;
        }
    }
    println!("MIRI-SLICE kind={kind} shard={shard} ops={ops} evaluations={} violations={}", r.evaluations.max(ops as u64), r.violation_count);
    for (sig, (what, _)) in &r.violations {
        println!("MIRI-VIOLATION {sig} :: {what}");
    }
    if r.violation_count == 0 {
        0
    } else {
        1
    }
}

/// Run the Miri tier for `kind` in `procs` interpreter processes; results go into the report.
pub fn miri_tier(report: &mut Report, kind: &str, procs: usize, ops_per_proc: usize, seed: u64) {
    let harness = std::env::var("VERIF_HARNESS").unwrap_or_else(|_| "/verif/harness".into());
    let work = std::env::var("VERIF_WORK").unwrap_or_else(|_| "/verif/.build/main".into());
    let run = |shard: usize, n: usize| {
        std::process::Command::new("cargo")
            .args(["+nightly", "miri", "run", "--quiet", "-p", "zvtmon", "--", "miri-slice", kind, &n.to_string(), &shard.to_string(), "--seed", &seed.to_string()])
            .current_dir(&harness)
            .env("CARGO_TARGET_DIR", format!("{work}/miri-target"))
            .env("MIRIFLAGS", "-Zmiri-disable-isolation")
            .env("CARGO_NET_OFFLINE", "true")
            .env_remove("RUSTFLAGS")
            .stdout(std::process::Stdio::piped())
            .stderr(std::process::Stdio::piped())
            .spawn()
    };
    // first process alone: it also builds the interpreter's copy of the dependencies
    let mut outputs = vec![];
    match run(0, ops_per_proc).and_then(|c| c.wait_with_output()) {
        Ok(o) => outputs.push(o),
        Err(e) => {
            report.extra.insert("miri".into(), json!({"status": format!("not run: {e}")}));
            return;
        }
    }
    let children: Vec<_> = (1..procs).filter_map(|s| run(s, ops_per_proc).ok()).collect();
    for c in children {
        if let Ok(o) = c.wait_with_output() {
            outputs.push(o);
        }
    }
    let mut ops = 0u64;
    let mut finished = 0;
    let mut notes = vec![];
    for o in &outputs {
        let out = String::from_utf8_lossy(&o.stdout);
        let err = String::from_utf8_lossy(&o.stderr);
        for l in out.lines() {
            if let Some(rest) = l.strip_prefix("MIRI-SLICE ") {
                finished += 1;
                if let Some(n) = rest.split_whitespace().find_map(|t| t.strip_prefix("ops=")).and_then(|n| n.parse::<u64>().ok()) {
                    ops += n;
                }
            }
            if let Some(v) = l.strip_prefix("MIRI-VIOLATION ") {
                let (sig, what) = v.split_once(" :: ").unwrap_or((v, ""));
                report.violation(&format!("[under Miri] {sig}"), what, json!({"kind": "miri", "slice": kind}));
            }
        }
        if err.contains("Undefined Behavior") || err.contains("error: unsupported operation") || err.contains("data race") {
            // first frame inside the repository decides
            let in_repo = err.lines().find(|l| l.contains("/zvt_builder/src") || l.contains("/zvt/src") || l.contains("/zvt_derive/src") || l.contains("/zvt_feig_terminal/src"));
            let head: String = err.lines().filter(|l| l.starts_with("error")).take(2).collect::<Vec<_>>().join(" | ");
            match in_repo {
                Some(frame) if err.contains("Undefined Behavior") || err.contains("data race") => report.violation(&format!("[Miri] {}", refcodec::evidence::strip_numbers(&head)), &format!("{head}; first repository frame: {}", frame.trim()), json!({"kind": "miri", "slice": kind, "stderr": err.chars().take(3000).collect::<String>()})),
                _ => notes.push(format!("report outside the repository's code: {head}")),
            }
        } else if !o.status.success() && !out.contains("MIRI-SLICE") {
            notes.push(format!("interpreter process ended without a result: {}", err.lines().rev().take(3).collect::<Vec<_>>().join(" | ")));
        }
    }
    report.extra.insert("miri".into(), json!({"slice": kind, "interpreter_processes": outputs.len(), "finished": finished, "operations_executed_under_miri": ops, "notes": notes}));
    if finished == 0 {
        report.inconclusive("the Miri tier did not produce any result (see coverage.miri.notes)");
    }
}
