//! C15 — replies are dispatched solely by their class and instruction bytes.

use crate::sut::{decode_type_raw, guarded, panic_signature, parse_enum_raw, ENUM_KEYS};
use crate::{sharded, Ctx};
use refcodec::codec::{apdu_len, Codec};
use refcodec::gen::{Gen, GenCfg, Presence};
use refcodec::hex;
use refcodec::prng::{fnv, Rng};
use refcodec::tables::REPLY_ENUMS;
use serde_json::json;

fn packet(c: u8, i: u8, body: &[u8]) -> Vec<u8> {
    let mut p = vec![c, i];
    p.extend(apdu_len(body.len()).unwrap());
    p.extend_from_slice(body);
    p
}

pub fn run(ctx: &Ctx) -> i32 {
    let mut report = ctx.report("C15", "exploration");
    report.rule = "17 reply enums x all 65536 (class,instruction) pairs x bodies {empty, a canonical body of every variant of the enum (so: valid for the target and valid for another variant), a whole packet of every variant as body (with and without an acknowledgement in front), canonical bodies of types outside the enum, random bytes, truncated}, each body inside a reply set also behind the extended length form FF lo hi; for pairs inside the reply set additionally many canonical and byte-mutated bodies. Oracle: independent reply-set table + the variant type's own decoder on the same bytes. Sequence level (the dispatch must not depend on what was received before): each of the 17 Sequence streams, after the acknowledgement and after every prefix of valid non-final replies of length <= 1 (thorough: <= 2), is sent a bare packet of every one of the 65536 control fields outside its reply set - it must yield exactly one error for it (after the prefix's items), end, and write nothing more (no acknowledgement: the packet was not mistaken for a reply), having consumed exactly that packet (for the classes 04/06/80/84 and a stride of the others the packet comes in the extended length form with a body that looks like a final reply); likewise every control field other than 80 00 in place of the acknowledgement, with the regular script queued behind it; and for the firmware-upload stream control fields outside {04 0C, 06 0F, 06 1E} behind a complete upload and behind the first request. Enumeration is duplicate-free by construction (enum, control field, body index / stream, prefix, control field); non-trivial = every case (each has a definite expected outcome).".into();
    report.exhaustive = Some(true);
    report.assumptions = vec![
        "reply sets of DESIGN Appendix B (refcodec::tables) are the specification".into(),
        "a panic of a variant's own decoder is C02's concern; here only the dispatch is judged (such inputs are counted as skipped)".into(),
    ];
    assert_eq!(ENUM_KEYS.len(), REPLY_ENUMS.len());
    let schema = refcodec::zvt_schema();
    let threads = ctx.threads;
    let seed = ctx.seed;
    let per_variant = ctx.by(300usize, 20_000usize);

    // bodies shared by all control fields
    let codec = Codec::new(&schema);
    let gen = Gen::new(&schema, GenCfg { big: false, stray_pct: 0 });
    let body_of = |key: &str, rng: &mut Rng| -> Vec<u8> {
        let def = schema.get(key);
        for _ in 0..200 {
            let v = gen.gen_struct(rng, def, Presence::Random, 0);
            if let Ok(b) = codec.canonical(def, &v) {
                let (n, after) = Codec::read_apdu_len(&b[2..]).unwrap();
                return after[..n].to_vec();
            }
        }
        vec![]
    };
    let mut rng0 = Rng::derive(seed, 1500);
    let outside: Vec<Vec<u8>> = ["packets::Registration", "packets::ReadCard", "feig::packets::WriteFile", "packets::SetTimeAndDate"].iter().map(|k| body_of(k, &mut rng0)).collect();

    sharded(&mut report, threads, |shard, r| {
        let mut rng = Rng::derive(seed, 1501 + shard as u64);
        for e in REPLY_ENUMS {
            // common bodies for this enum
            let mut bodies: Vec<Vec<u8>> = vec![vec![]];
            for (_, key) in e.variants {
                bodies.push(body_of(key, &mut rng));
            }
            bodies.extend(outside.iter().cloned());
            // a *whole packet* of every variant (own header + length) as body: must not be unwrapped
            let n0 = bodies.len();
            for (_, key) in e.variants {
                let def = schema.get(key);
                let (c, i) = def.cf.unwrap();
                let inner = body_of(key, &mut rng);
                bodies.push(packet(c, i, &inner));
                // ... also behind an acknowledgement-shaped prefix
                let mut with_ack = vec![0x80, 0x00, 0x00];
                with_ack.extend(packet(c, i, &inner));
                bodies.push(with_ack);
            }
            let _ = n0;
            let n = 1 + rng.below(40) as usize;
            bodies.push(rng.bytes(n));
            bodies.push(rng.bytes(3));
            let mut cf = shard as u32;
            while cf < 65536 {
                let (c, i) = ((cf >> 8) as u8, cf as u8);
                let target = e.variants.iter().find(|(_, key)| schema.get(key).cf == Some((c, i)));
                for (bi, body) in bodies.iter().enumerate() {
                    let mut pk = packet(c, i, body);
                    if bi == bodies.len() - 1 {
                        pk[2] = 9; // announces more than is there
                    }
                    check(r, e.name, target, &pk, false);
                    // the same body behind the extended length form FF lo hi (not the shortest form, but every
                    // reader of the library accepts it): inside the reply sets, and on a stride outside
                    if target.is_some() || cf % 257 == 0 {
                        let mut ext = vec![c, i, 0xff, body.len() as u8, (body.len() >> 8) as u8];
                        ext.extend_from_slice(body);
                        check(r, e.name, target, &ext, false);
                    }
                }
                cf += threads as u32;
            }
        }
        // inside the reply sets: many bodies per variant
        for e in REPLY_ENUMS {
            for target in e.variants.iter() {
                let (c, i) = schema.get(target.1).cf.unwrap();
                for k in 0..per_variant / threads {
                    let mut body = body_of(target.1, &mut rng);
                    match k % 4 {
                        1 if !body.is_empty() => {
                            let p = rng.below(body.len() as u64) as usize;
                            body[p] = rng.byte();
                        }
                        2 => {
                            let n = 1 + rng.below(4) as usize;
                            body.extend(rng.bytes(n))
                        }
                        3 if !body.is_empty() => {
                            let p = rng.below(body.len() as u64) as usize;
                            body.truncate(p);
                        }
                        _ => {}
                    }
                    let pk = packet(c, i, &body);
                    check(r, e.name, Some(target), &pk, true);
                    if k % 3 == 0 {
                        let mut ext = vec![c, i, 0xff, body.len() as u8, (body.len() >> 8) as u8];
                        ext.extend_from_slice(&body);
                        check(r, e.name, Some(target), &ext, true);
                    }
                }
            }
        }
        if shard == 0 {
            for e in REPLY_ENUMS {
                check_short(r, e.name, &[]);
                for x in 0..=255u8 {
                    check_short(r, e.name, &[x]);
                }
            }
        }
    });
    sequence_level(ctx, &mut report, &schema);
    report.extra.insert("enums".into(), json!(REPLY_ENUMS.len()));
    report.extra.insert("control_fields_per_enum".into(), json!(65536));
    crate::also_in_release_build(&mut report, "C15", ctx);
    report.finish()
}

fn check_short(r: &mut refcodec::evidence::Report, enum_name: &str, input: &[u8]) {
    r.case_enumerated(true);
    let case = json!({"enum": enum_name, "input": hex(input)});
    match guarded(|| parse_enum_raw(enum_name, input)) {
        Err(p) => r.violation(&format!("{enum_name} short input {}", panic_signature(&p)), &format!("zvt_parse({}) panicked: {p}", hex(input)), case),
        Ok(Ok(v)) => r.violation(&format!("{enum_name} accepts an input shorter than a control field"), &format!("zvt_parse({}) = Ok({v})", hex(input)), case),
        Ok(Err(_)) => {}
    }
}

fn check(r: &mut refcodec::evidence::Report, enum_name: &str, target: Option<&(&str, &str)>, pk: &[u8], hashed: bool) {
    let got = guarded(|| parse_enum_raw(enum_name, pk));
    let case = json!({"enum": enum_name, "packet": hex(&pk[..pk.len().min(80)]), "packet_len": pk.len()});
    match target {
        None => {
            if hashed {
                r.case(fnv(pk) ^ fnv(enum_name.as_bytes()), true);
            } else {
                r.case_enumerated(true);
            }
            r.count("outside_reply_set", 1);
            match got {
                Err(p) => r.violation(&format!("{enum_name} outside reply set {}", panic_signature(&p)), &format!("zvt_parse({}) panicked: {p}", hex(pk)), case),
                Ok(Ok(v)) => r.violation(
                    &format!("{enum_name} accepts a control field outside its reply set"),
                    &format!("control field {:02x}{:02x} is not in the reply set of {enum_name} but zvt_parse returned Ok({})", pk[0], pk[1], v.chars().take(120).collect::<String>()),
                    case,
                ),
                Ok(Err(_)) => {}
            }
        }
        Some((variant, key)) => {
            let own = guarded(|| decode_type_raw(key, pk));
            let Ok(own) = own else {
                // the variant's own decoder panics on these bytes: C02's concern, dispatch cannot be judged
                r.evaluations += 1;
                r.count("skipped_own_decoder_panics", 1);
                return;
            };
            if hashed {
                r.case(fnv(pk) ^ fnv(enum_name.as_bytes()), true);
            } else {
                r.case_enumerated(true);
            }
            r.count("inside_reply_set", 1);
            let expected: Result<String, String> = own.map(|(dbg, _)| format!("{variant}({dbg})"));
            if expected.is_ok() {
                r.count("inside_reply_set_decoded_ok", 1);
            }
            match got {
                Err(p) => r.violation(&format!("{enum_name}::{variant} {}", panic_signature(&p)), &format!("zvt_parse({}) panicked: {p}", hex(pk)), case),
                Ok(g) => {
                    if g != expected {
                        let short = |x: &Result<String, String>| format!("{x:?}").chars().take(160).collect::<String>();
                        r.violation(
                            &format!("{enum_name}::{variant} differs from {key}'s own decoder"),
                            &format!("zvt_parse = {}, the variant type alone gives {}", short(&g), short(&expected)),
                            case,
                        );
                    } else if r.wants_sample() && expected.is_ok() {
                        r.sample(json!({"enum": enum_name, "packet": hex(&pk[..pk.len().min(48)]), "result": expected.unwrap().chars().take(100).collect::<String>()}));
                    }
                }
            }
        }
    }
}


/// State-dependent dispatch: whatever replies a stream has already received, a packet whose control field is outside the
/// reply set is an error there and then - never acknowledged, skipped or taken for a reply.
fn sequence_level(ctx: &Ctx, report: &mut refcodec::evidence::Report, schema: &refcodec::layout::Schema) {
    use crate::script::{Entry, Ev, Script, Term};
    use crate::seq::{command_for, prefixes_up_to, run_stream, variant_key, Pools, ACK};
    use refcodec::tables::{reply_enum, STREAMS};
    let pools = Pools::build(schema, ctx.seed, 4);
    let depth = ctx.by(1usize, 2usize);
    long_replies(ctx, report, schema);
    ack_position_sweep(ctx, report, schema, "C15");
    write_file_sweep(ctx, report, schema);
    let threads = ctx.threads;
    let seed = ctx.seed;
    // work items: (stream, prefix)
    let mut items: Vec<(&'static refcodec::tables::StreamDef, Vec<&'static str>)> = vec![];
    for sd in STREAMS.iter().filter(|s| s.name != "feig::WriteFile") {
        for p in prefixes_up_to(sd, depth) {
            items.push((sd, p));
        }
    }
    report.extra.insert("sequence_level_stream_states".into(), json!(items.len()));
    sharded(report, threads, |shard, r| {
        let mut rng = Rng::derive(seed, 0xC15_5E0 + shard as u64);
        for (sd, prefix) in items.iter() {
            let e = reply_enum(sd.replies);
            let in_set: Vec<(u8, u8)> = e.variants.iter().filter_map(|v| schema.get(v.1).cf).collect();
            let cmd = command_for(schema, &pools, &mut rng, sd);
            let replies: Vec<Vec<u8>> = prefix.iter().map(|v| pools.pick(&mut rng, variant_key(sd, v)).0.clone()).collect();
            // script: ack after the command; reply k after the command and k acknowledgements
            let mut entries = vec![Entry { bytes: ACK.to_vec(), gate: cmd.len() }];
            for (k, b) in replies.iter().enumerate() {
                entries.push(Entry { bytes: b.clone(), gate: cmd.len() + 3 * k });
            }
            let gate_x = cmd.len() + 3 * replies.len();
            let expected_written = gate_x;
            let mut cf = shard as u32;
            while cf < 65536 {
                let (c, i) = ((cf >> 8) as u8, cf as u8);
                cf += threads as u32;
                if in_set.contains(&(c, i)) {
                    continue;
                }
                let mut es = entries.clone();
                // mostly the bare packet; for the classes a terminal really uses and a stride of the others, the packet in
                // the extended length form with a body that looks like a final reply
                let x: Vec<u8> = if matches!(c, 0x04 | 0x06 | 0x80 | 0x84) && i % 3 == 0 || cf % 97 == 0 { vec![c, i, 0xff, 0x03, 0x00, 0x06, 0x0f, 0x00] } else { vec![c, i, 0] };
                let bytes_due: usize = entries.iter().map(|e| e.bytes.len()).sum::<usize>() + x.len();
                es.push(Entry { bytes: x.clone(), gate: gate_x });
                let term = Term::new(Script::new(es));
                term.0.lock().unwrap().record_payloads = false;
                r.case_enumerated(true);
                r.count("sequence_level_cases", 1);
                let res = run_stream(sd.name, &cmd, &term, None);
                let st = term.0.lock().unwrap();
                let oks = st.log.iter().filter(|e| matches!(e, Ev::Yield { ok: true, .. })).count();
                let errs = st.log.iter().filter(|e| matches!(e, Ev::Yield { ok: false, .. })).count();
                let ended = matches!(st.log.last(), Some(Ev::End));
                let written = st.written;
                let delivered = st.delivered;
                let case = || json!({"kind": "sequence-level", "stream": sd.name, "command": hex(&cmd[..cmd.len().min(40)]), "valid_replies_before": prefix, "then_packet": hex(&x), "bytes_delivered": delivered, "bytes_due": bytes_due, "yielded_ok": oks, "yielded_err": errs, "ended": ended, "bytes_written": written, "bytes_expected_written": expected_written});
                match res {
                    Err(p) if p.starts_with("PANIC") => {
                        r.violation(&format!("{} stream {}", sd.name, panic_signature(&p)), &format!("after {prefix:?} the packet {:02x}{:02x}00 made the stream panic: {p}", c, i), case());
                        continue;
                    }
                    Err(p) => {
                        r.inconclusive(&format!("C15 sequence level: {p}"));
                        return;
                    }
                    Ok(false) => {
                        r.inconclusive("harness poll guard fired in C15");
                        return;
                    }
                    Ok(true) => {}
                }
                if written > expected_written {
                    r.violation(&format!("{} stream: a packet outside the reply set is answered (taken for a reply)", sd.name), &format!("after {prefix:?} the packet {:02x}{:02x}00 is outside the reply set of {}, but the client wrote {} more bytes after it", c, i, sd.replies, written - expected_written), case());
                } else if errs == 1 && ended && delivered != bytes_due {
                    r.violation(&format!("{} stream: a rejected packet is not consumed exactly (its bytes stay in / are taken from the connection)", sd.name), &format!("after {prefix:?} the packet {} was rejected, but {delivered} bytes were taken from the connection where {bytes_due} were sent", hex(&x)), case());
                } else if errs != 1 || !ended || oks != prefix.len() {
                    r.violation(&format!("{} stream: a packet outside the reply set does not end the stream with exactly one error", sd.name), &format!("after {prefix:?} the packet {:02x}{:02x}00: {oks} items, {errs} errors, ended={ended}", c, i), case());
                } else if r.wants_sample() && cf % 4099 < threads as u32 {
                    r.sample(json!({"stream": sd.name, "valid_replies_before": prefix, "then_packet": hex(&x), "observed": format!("{oks} items, 1 error, end; nothing written after it")}));
                }
            }
        }
    });
}


/// Replies inside the reply set whose body needs the extended length form (255 bytes and more), delivered under every
/// cut of the 5-byte header and byte-wise: the item handed out is the variant of that control field with exactly the
/// content the variant's own decoder gives for the same bytes, and it is acknowledged once.
fn long_replies(ctx: &Ctx, report: &mut refcodec::evidence::Report, schema: &refcodec::layout::Schema) {
    use crate::script::{Chunking, Entry, Ev, Script, Term};
    use crate::seq::{command_for, item_debug, run_stream, Pools, ACK};
    use refcodec::tables::{reply_enum, STREAMS};
    let pools = Pools::build(schema, ctx.seed ^ 0x10, 2);
    let codec = Codec::new(schema);
    let gen = Gen::new(schema, GenCfg { big: true, stray_pct: 0 });
    let threads = ctx.threads;
    let seed = ctx.seed;
    let per_variant = ctx.by(3usize, 40usize);
    let streams: Vec<&'static refcodec::tables::StreamDef> = STREAMS.iter().filter(|s| s.name != "feig::WriteFile").collect();
    // long canonical encodings per reply type, drawn once
    let mut long_by_key: std::collections::BTreeMap<&'static str, Vec<Vec<u8>>> = Default::default();
    {
        let mut rng = Rng::derive(seed, 0xC15_10A);
        for sd in &streams {
            for (_, key) in reply_enum(sd.replies).variants {
                if long_by_key.contains_key(key) {
                    continue;
                }
                let def = schema.get(key);
                let mut v = vec![];
                for _ in 0..150 {
                    if v.len() >= per_variant {
                        break;
                    }
                    let val = gen.gen_struct(&mut rng, def, Presence::Random, 0);
                    let Ok(b) = codec.canonical(def, &val) else { continue };
                    if b.len() >= 5 + 255 && b[2] == 0xff && b.len() <= 5000 {
                        v.push(b);
                    }
                }
                long_by_key.insert(key, v);
            }
        }
    }
    sharded(report, threads, |shard, r| {
        let mut rng = Rng::derive(seed, 0xC15_10B + shard as u64);
        for (si, sd) in streams.iter().enumerate() {
            if si % threads != shard % threads && threads <= streams.len() {
                continue;
            }
            if threads > streams.len() && si != shard {
                continue;
            }
            let e = reply_enum(sd.replies);
            for (variant, key) in e.variants {
                let mut found = 0usize;
                for b in long_by_key.get(key).cloned().unwrap_or_default() {
                    found += 1;
                    let expected = item_debug(variant, key, &b, "?");
                    if expected.ends_with("(?)") {
                        continue; // the variant's own decoder rejects it: not this check's business
                    }
                    let cmd = command_for(schema, &pools, &mut rng, sd);
                    let mut chunkings = vec![Chunking::Whole, Chunking::Bytewise];
                    for cut in 1..=6usize {
                        chunkings.push(Chunking::Cuts(vec![cut]));
                    }
                    chunkings.push(Chunking::Cuts(vec![3, 4]));
                    chunkings.push(Chunking::Cuts(vec![4, 5]));
                    for chunking in chunkings {
                        // the cut positions are relative to the reply: shift them behind the acknowledgement
                        let chunking = match chunking {
                            Chunking::Cuts(c) => Chunking::Cuts(c.into_iter().map(|x| x + 3).collect()),
                            o => o,
                        };
                        let mut script = Script::new(vec![Entry { bytes: ACK.to_vec(), gate: cmd.len() }, Entry { bytes: b.clone(), gate: cmd.len() }]);
                        script.chunking = chunking.clone();
                        script.pend_between = true;
                        let term = Term::new(script);
                        r.case(fnv(&b) ^ fnv(format!("{chunking:?}{}", sd.name).as_bytes()), true);
                        r.count("sequence_level_long_replies", 1);
                        let res = run_stream(sd.name, &cmd, &term, None);
                        let st = term.0.lock().unwrap();
                        let first = st.log.iter().find_map(|e| if let Ev::Yield { ok, debug } = e { Some((*ok, debug.clone())) } else { None });
                        let case = || json!({"kind": "sequence-level-long-reply", "stream": sd.name, "variant": variant, "reply_len": b.len(), "reply_head": hex(&b[..12]), "chunking": format!("{chunking:?}"), "first_item": first.as_ref().map(|f| f.1.chars().take(200).collect::<String>()), "expected_item": expected.chars().take(200).collect::<String>()});
                        match res {
                            Err(p) if p.starts_with("PANIC") => {
                                r.violation(&format!("{} stream {}", sd.name, panic_signature(&p)), &p, case());
                                continue;
                            }
                            Err(p) => {
                                r.inconclusive(&format!("C15 long replies: {p}"));
                                return;
                            }
                            Ok(false) => {
                                r.inconclusive("harness poll guard fired in C15");
                                return;
                            }
                            Ok(true) => {}
                        }
                        match &first {
                            Some((true, d)) if *d == expected => {}
                            Some((true, _)) => r.violation(&format!("{} stream: a long {variant} reply is handed out with other content than its own decoder gives", sd.name), &format!("reply of {} bytes delivered as {chunking:?}", b.len()), case()),
                            Some((false, d)) => r.violation(&format!("{} stream: a long {variant} reply inside the reply set is rejected", sd.name), &format!("reply of {} bytes delivered as {chunking:?}: {d}", b.len()), case()),
                            None => r.violation(&format!("{} stream: a long {variant} reply is not handed out", sd.name), &format!("reply of {} bytes delivered as {chunking:?}", b.len()), case()),
                        }
                    }
                }
                if found > 0 {
                    r.note("variants_with_long_replies", &format!("{}::{variant}", sd.replies));
                }
            }
        }
    });
}


/// In place of the acknowledgement: every control field other than 80 00 (bare packet), with the regular script (an
/// acknowledgement and a final reply) queued right behind it.  Exactly one error, no item, nothing written after the
/// command, and nothing read beyond that packet.  (Shared by C06 and C15.)
pub fn ack_position_sweep(ctx: &Ctx, report: &mut refcodec::evidence::Report, schema: &refcodec::layout::Schema, id: &str) {
    use crate::script::{Entry, Ev, Script, Term};
    use crate::seq::{command_for, run_stream, variant_key, Pools, ACK};
    use refcodec::tables::STREAMS;
    let pools = Pools::build(schema, ctx.seed ^ 0xacc, 3);
    let threads = ctx.threads;
    let seed = ctx.seed;
    sharded(report, threads, |shard, r| {
        let mut rng = Rng::derive(seed, 0xACC_0000 + shard as u64);
        for sd in STREAMS.iter().filter(|s| s.name != "feig::WriteFile") {
            let cmd = command_for(schema, &pools, &mut rng, sd);
            let final_variant = sd.finals.first().copied().unwrap_or_else(|| refcodec::tables::reply_enum(sd.replies).variants[0].0);
            let mut carry_on = ACK.to_vec();
            carry_on.extend(pools.pick(&mut rng, variant_key(sd, final_variant)).0.iter());
            // a positive acknowledgement that carries a data block (80 00 with a body that looks like a final reply, short
            // and extended length form): one packet - its body is not the reply
            if shard == 0 {
                let final_bytes = carry_on[3..].to_vec();
                for ack in [vec![0x80u8, 0x00, 0x03, 0x06, 0x0f, 0x00], vec![0x80, 0x00, 0x04, 0x06, 0x1e, 0x01, 0x6c], vec![0x80, 0x00, 0xff, 0x03, 0x00, 0x06, 0x0f, 0x00], vec![0x80, 0x00, 0x03, 0x80, 0x00, 0x00]] {
                    let term = Term::new(Script::new(vec![Entry { bytes: ack.clone(), gate: cmd.len() }, Entry { bytes: final_bytes.clone(), gate: cmd.len() }]));
                    r.case_enumerated(true);
                    r.count("ack_with_data_block_cases", 1);
                    let res = run_stream(sd.name, &cmd, &term, None);
                    let st = term.0.lock().unwrap();
                    let oks = st.log.iter().filter(|e| matches!(e, Ev::Yield { ok: true, .. })).count();
                    let errs = st.log.iter().filter(|e| matches!(e, Ev::Yield { ok: false, .. })).count();
                    let due = ack.len() + final_bytes.len();
                    let case = || json!({"kind": "ack-with-data-block", "stream": sd.name, "acknowledgement": hex(&ack), "reply": hex(&final_bytes[..final_bytes.len().min(24)]), "yielded_ok": oks, "yielded_err": errs, "bytes_delivered": st.delivered, "bytes_due": due});
                    if matches!(res, Err(ref p) if p.starts_with("PANIC")) {
                        r.violation(&format!("{id} {} stream panics on an acknowledgement with a data block", sd.name), &format!("{res:?}"), case());
                    } else if errs == 0 && (oks != 1 || st.delivered != due) {
                        // (rejecting such an acknowledgement is fine: one error; accepting it means the reply behind it is the reply)
                        r.violation(&format!("{id} {} stream: the data block of an acknowledgement is taken for a reply", sd.name), &format!("acknowledgement {} then the final reply: {oks} items, {} of {due} bytes consumed", hex(&ack), st.delivered), case());
                    }
                }
            }
            let mut cf = shard as u32;
            while cf < 65536 {
                let (c, i) = ((cf >> 8) as u8, cf as u8);
                cf += threads as u32;
                if (c, i) == (0x80, 0x00) {
                    continue;
                }
                let term = Term::new(Script::new(vec![Entry { bytes: vec![c, i, 0], gate: cmd.len() }, Entry { bytes: carry_on.clone(), gate: cmd.len() }]));
                term.0.lock().unwrap().record_payloads = false;
                r.case_enumerated(true);
                r.count("ack_position_cases", 1);
                let res = run_stream(sd.name, &cmd, &term, None);
                let st = term.0.lock().unwrap();
                let oks = st.log.iter().filter(|e| matches!(e, Ev::Yield { ok: true, .. })).count();
                let errs = st.log.iter().filter(|e| matches!(e, Ev::Yield { ok: false, .. })).count();
                let ended = matches!(st.log.last(), Some(Ev::End));
                let (written, delivered) = (st.written, st.delivered);
                let case = || json!({"kind": "ack-position", "stream": sd.name, "command": hex(&cmd[..cmd.len().min(40)]), "in_place_of_the_acknowledgement": hex(&[c, i, 0]), "queued_behind": hex(&carry_on[..carry_on.len().min(24)]), "yielded_ok": oks, "yielded_err": errs, "ended": ended, "bytes_written": written, "command_len": cmd.len(), "bytes_delivered": delivered});
                match res {
                    Err(p) if p.starts_with("PANIC") => {
                        r.violation(&format!("{id} {} stream {}", sd.name, panic_signature(&p)), &p, case());
                        continue;
                    }
                    Err(p) => {
                        r.inconclusive(&format!("{id} acknowledgement sweep: {p}"));
                        return;
                    }
                    Ok(false) => {
                        r.inconclusive("harness poll guard fired");
                        return;
                    }
                    Ok(true) => {}
                }
                if written > cmd.len() || oks > 0 {
                    r.violation(&format!("{id} {} stream: a packet other than 80 00 is taken for the acknowledgement", sd.name), &format!("{:02x}{:02x}00 in place of the acknowledgement: the exchange carried on ({oks} items, {} bytes written after the command)", c, i, written - cmd.len().min(written)), case());
                } else if errs != 1 || !ended {
                    r.violation(&format!("{id} {} stream: anything but a positive acknowledgement must yield exactly one error", sd.name), &format!("{:02x}{:02x}00 in place of the acknowledgement: {errs} errors, ended={ended}", c, i), case());
                } else if delivered != 3 {
                    r.violation(&format!("{id} {} stream: reads beyond the packet that failed the exchange", sd.name), &format!("{:02x}{:02x}00 in place of the acknowledgement: {delivered} bytes taken from the connection", c, i), case());
                }
            }
        }
    });
}


/// The firmware upload stream (not a `Sequence` impl): behind a complete upload (every announced byte fetched) and behind
/// the first request, control fields outside its reply set {04 0C, 06 0F, 06 1E} - all of the classes 04/06/80/84 and a
/// stride of the rest - must end the stream with exactly one error and no further write.
fn write_file_sweep(ctx: &Ctx, report: &mut refcodec::evidence::Report, schema: &refcodec::layout::Schema) {
    use crate::script::Chunking;
    use crate::seq::{upload_dir, wf_full_upload, CmdCheck, Exchange, Fault, WfCodec, ACK};
    let threads = ctx.threads;
    let seed = ctx.seed;
    let in_set: [(u8, u8); 3] = [(0x04, 0x0c), (0x06, 0x0f), (0x06, 0x1e)];
    sharded(report, threads, |shard, r| {
        let mut rng = Rng::derive(seed, 0xC15_F11E + shard as u64);
        for round in 0..2usize {
            let (dir, params, sizes) = upload_dir(&format!("c15-{shard}"), &mut rng);
            let announce = WfCodec::announce(params.password as u128, &sizes);
            let mut replies = wf_full_upload(&mut rng, &dir, params.block);
            if round == 1 {
                replies.truncate(1);
            }
            let mut cf = shard as u32;
            while cf < 65536 {
                let (c, i) = ((cf >> 8) as u8, cf as u8);
                cf += threads as u32;
                if in_set.contains(&(c, i)) || !(matches!(c, 0x04 | 0x06 | 0x80 | 0x84) || (cf / threads as u32) % 61 == 0) {
                    continue;
                }
                let ex = Exchange {
                    stream: "feig::WriteFile",
                    cmd_bytes: announce.clone(),
                    cmd_check: CmdCheck::WriteFile { password: params.password as u128, files: sizes.clone(), len: announce.len() },
                    ack: ACK.to_vec(),
                    replies: replies.clone(),
                    final_at: None,
                    junk: vec![],
                    chunking: Chunking::Whole,
                    pend_between: false,
                    write_chunk: None,
                    fault: Some(Fault { kind: "foreign-control-field", at_ack: false, bytes: vec![c, i, 0], eof: false, followed_by: vec![0x06, 0x0f, 0x00] }),
                    wf: Some(&params),
                };
                r.case(fnv(&announce) ^ (cf as u64) << 8 ^ round as u64, true);
                r.count("write_file_sweep_cases", 1);
                ex.check_c06(r, schema, "C15");
            }
        }
    });
}
