pub fn run(_ctx: &crate::Ctx, _id: &str) -> i32 { 2 }
pub fn selfcheck(_ctx: &crate::Ctx) -> i32 { 2 }
