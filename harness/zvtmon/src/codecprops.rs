//! Drivers of C01, C03, C13, C14 on the shipped struct types (engine: refcodec::engine).

use crate::sut::{decode_type, run_type};
use crate::Ctx;
use refcodec::codec::Codec;
use refcodec::engine::*;
use refcodec::hex;
use refcodec::val::render_struct;
use serde_json::json;

pub struct InProc;
impl Sut for InProc {
    fn build(&mut self, key: &str, v: &refcodec::val::Val) -> Option<Result<Built, String>> {
        crate::build::build_type(key, v)
    }
    fn decode_eq(&mut self, key: &str, bytes: &[u8], want: &refcodec::val::Val) -> Option<bool> {
        crate::build::decode_eq_type(key, bytes, want)
    }
    fn run(&mut self, key: &str, bytes: &[u8]) -> Outcome {
        run_type(key, bytes)
    }
    fn decode(&mut self, key: &str, bytes: &[u8]) -> Outcome {
        decode_type(key, bytes)
    }
}


pub fn run(ctx: &Ctx, id: &str) -> i32 {
    let schema = refcodec::zvt_schema();
    let keys: Vec<String> = schema.order.clone();
    assert_eq!(keys.len(), crate::sut::TYPE_KEYS.len(), "layout table and dispatch table must list the same types");
    for k in &keys {
        assert!(crate::sut::TYPE_KEYS.contains(&k.as_str()), "no dispatch entry for {k}");
    }
    let (prop, level) = match id {
        "C01" => (Prop::C01, "exploration"),
        "C03" => (Prop::C03, "exploration"),
        "C13" => (Prop::C13, "exploration"),
        "C14" => (Prop::C14, "exploration"),
        _ => unreachable!(),
    };
    let mut report = ctx.report(id, level);
    if let Some(path) = &ctx.replay {
        return replay(ctx, id, path);
    }
    let plan = match (prop, ctx.quick()) {
        (Prop::C01 | Prop::C03, true) => Plan { per_type_random: 2_000, per_field_alone: 16, all_present: 8, mutation_bases: 0, max_perms: 0, big: true },
        (Prop::C01 | Prop::C03, false) => Plan { per_type_random: 50_000, per_field_alone: 64, all_present: 64, mutation_bases: 0, max_perms: 0, big: true },
        (Prop::C13, true) => Plan { per_type_random: 200, per_field_alone: 2, all_present: 4, mutation_bases: 300, max_perms: 720, big: false },
        (Prop::C13, false) => Plan { per_type_random: 4000, per_field_alone: 8, all_present: 16, mutation_bases: 5000, max_perms: 720, big: false },
        (Prop::C14, true) => Plan { per_type_random: 400, per_field_alone: 4, all_present: 4, mutation_bases: 600, max_perms: 0, big: false },
        (_, _) => Plan { per_type_random: 6000, per_field_alone: 16, all_present: 16, mutation_bases: 10_000, max_perms: 0, big: true },
    };
    report.rule = match prop {
        Prop::C01 => "55 shipped struct types x canonical values (fixed points of the reference codec): systematic presence masks (all absent, each optional field alone x N, all present) then random masks; numbers at digit-count boundaries, text/hex/bytes at the limits of every prefix style incl. 64 KiB. Case = (type, reference encoding B). x = T::decode(B); judged: decode(encode(x)) == x with the type's own PartialEq, nothing left over, and Debug still equal to the value's rendering. Non-trivial = non-empty body; distinct by hash of (type, B).",
        Prop::C03 => "same workload as C01; judged: T::decode(B) renders (derived Debug: field names and values) exactly as the canonical value V that the independent layout table encoded into B, nothing left over, and T::encode(T::decode(B)) == B byte for byte. Each optional field additionally alone (attribution). Non-trivial = non-empty body; distinct by hash of (type, B).",
        Prop::C13 => "per canonical value and per struct node of its reference chunk tree: all permutations of the tagged groups when <=6 (else sampled), a copy of every non-repeated group at every position, every non-empty subset of the mandatory groups removed, a foreign tag (1- and 2-byte, unknown to every struct reachable from the root) at every group position; enclosing length prefixes recomputed. Oracle: the reference decoder on the very same bytes; permutation -> same value; duplicate -> DuplicateTag(that tag); removal -> MissingRequiredTags(sorted); foreign tag -> error or exactly the value of the preceding bytes. Weakened inside repeated/positional-optional scopes. Non-trivial = every judged mutant; distinct by hash of (type, mutated bytes, kind).",
        _ => "per canonical packet: suffixes {each single byte (all 256 on the first value of a type, sampled after), the packet itself, another valid packet, more digits/text, another element with the last field's tag, random <=64 bytes, and for a sample of the values suffixes that take the whole input to 65536 .. 65541 bytes and beyond}: same value, remainder == suffix; where the library's own serialisation differs from the reference encoding, suffixes behind that as well (decode(own + s) == (decode(own), s)). Per nested length-prefixed element: attractive bytes placed right behind it inside its parent (a field of the container's own struct, a foreign TLV, more payload bytes), enclosing lengths recomputed; oracle: reference decoder on the same bytes. Non-trivial = every judged mutant; distinct by hash.",
    }
    .into();
    report.assumptions = vec![
        "the reference codec + layout table (harness/refcodec) are the trusted statement of the wire format; validated against the repository's 25 captured blobs (./check selfcheck)".into(),
        "canonical domain = fixed points of the reference codec (DESIGN 5.1); rejected candidates are counted per class under rejected.*".into(),
        "typed values are compared through derived Debug (field names + values) and the types' own PartialEq".into(),
    ];
    // a shipped decoder that does not come back / allocates without bound: this process ends itself with exit code 3
    // and the operations in flight in a file; `./check` then runs `zvtmon runaway-confirm`, which runs each of them
    // again alone in a fresh process before anything is reported (see refcodec::runaway)
    refcodec::runaway::start_watchdog(runaway_file(id), std::time::Duration::from_secs(20), 4 << 20);
    let make: &(dyn Fn() -> Box<dyn Sut> + Sync) = &|| Box::new(refcodec::runaway::Watched(InProc));
    run_types(ctx.threads, ctx.seed, &mut report, &schema, &keys, prop, id, &plan, make);
    presence_floor(&mut report, &schema, &keys);
    report.extra.insert("types".into(), json!(keys.len()));
    // the same mutations on generated struct definitions (shapes no shipped type has: three and more mandatory tagged
    // fields, every length style around nested containers, ...): the crates are those of C12 for this seed
    if matches!(prop, Prop::C13 | Prop::C14) && std::env::var("VERIF_NO_GENERATED").is_err() {
        let (n_crates, n_structs, per_type, bases) = if ctx.quick() { (1usize, 160usize, 20usize, 24usize) } else { (2, 320, 200, 300) };
        report.rule.push_str(&format!(" The same mutations are applied to {n_crates} generated crate(s) of {n_structs} struct definitions drawn from the derive macro's attribute grammar (the crates of C12 for this seed; {bases} base values per struct), judged by the reference codec interpreting the generator's description."));
        if let Some(rc) = crate::c12::run_generated(ctx, &mut report, id, n_crates, n_structs, per_type, bases) {
            return rc;
        }
    }
    if matches!(prop, Prop::C01 | Prop::C03) {
        crate::also_in_release_build(&mut report, id, ctx);
    }
    report.finish()
}

/// Where a codec check leaves the operations in flight when it ends itself as runaway (the release-build pass has a
/// file of its own).
pub fn runaway_file(id: &str) -> String {
    let work = std::env::var("VERIF_WORK").unwrap_or_else(|_| "/verif/.build/main".into());
    let rel = if std::env::var("VERIF_DUMP_JSON").is_ok() { "-rel" } else { "" };
    format!("{work}/runaway-{id}{rel}.json")
}

/// `zvtmon decode-one <type> <hex> <report.json>`: one decode / re-encode / decode alone in this process, under the
/// runaway monitor (10 s, 1 GiB).
pub fn decode_one(args: &[String]) -> i32 {
    refcodec::runaway::start_watchdog_alone(args[2].clone(), std::time::Duration::from_secs(10), 1 << 20);
    let bytes = refcodec::unhex(&args[1]).unwrap_or_default();
    let _ = Sut::run(&mut refcodec::runaway::Watched(InProc), &args[0], &bytes);
    0
}

/// The operations that were in flight when a codec check ended itself as runaway, each run again alone in a fresh
/// process (`bin decode-one`).  Those that again do not come back are violations; returns how many there were.
pub fn confirm_runaway(report: &mut refcodec::evidence::Report, id: &str, file: &str, bin: &str, prefix: &str) -> usize {
    let text = std::fs::read_to_string(file).unwrap_or_default();
    let _ = std::fs::remove_file(file);
    let Ok(j) = serde_json::from_str::<serde_json::Value>(&text) else {
        report.inconclusive(&format!("{prefix}the check ended itself as runaway but left no readable report ({file})"));
        return 0;
    };
    let reason = j["reason"].as_str().unwrap_or("?").to_string();
    let mut confirmed = 0;
    let mut seen = std::collections::BTreeSet::new();
    for op in j["ops"].as_array().cloned().unwrap_or_default().iter().take(16) {
        let (Some(ty), Some(hexs), Some(kind)) = (op["type"].as_str(), op["bytes"].as_str(), op["kind"].as_str()) else { continue };
        if kind == "construct + serialise" || !seen.insert((ty.to_string(), hexs.to_string())) {
            continue;
        }
        let rep = format!("{file}.one");
        let _ = std::fs::remove_file(&rep);
        let st = std::process::Command::new(bin).args(["decode-one", ty, hexs, &rep]).stdout(std::process::Stdio::null()).stderr(std::process::Stdio::null()).status();
        let again = std::fs::read_to_string(&rep).ok().and_then(|t| serde_json::from_str::<serde_json::Value>(&t).ok());
        let _ = std::fs::remove_file(&rep);
        if let (Ok(s), Some(a)) = (st, again) {
            if s.code() == Some(refcodec::runaway::EXIT_RUNAWAY) {
                confirmed += 1;
                report.violation(
                    &format!("{prefix}{ty}: a decode does not come back (no value, no error)"),
                    &format!("{kind} of {} bytes: in the run: {reason}; alone in a fresh process: {}", hexs.len() / 2, a["reason"].as_str().unwrap_or("?")),
                    json!({"kind": "runaway", "type": ty, "bytes": hexs, "operation": kind, "confirm_cmd": format!("{bin} decode-one {ty} {hexs} /dev/null")}),
                );
            }
        }
    }
    if confirmed == 0 {
        report.inconclusive(&format!("{prefix}the check ended itself ({reason}); none of the {} operations in flight did it again alone", j["ops"].as_array().map(|a| a.len()).unwrap_or(0)));
    }
    confirmed
}

/// `zvtmon runaway-confirm <ID> <file>`: verdict after a codec check ended itself as runaway.
pub fn runaway_confirm(ctx: &Ctx, id: &str, file: &str) -> i32 {
    if id == "C02" {
        return crate::c02::confirm_file(ctx, file);
    }
    let mut report = ctx.report(id, "exploration");
    report.rule = "the check ended itself because an operation on a shipped type did not come back or memory ran away; every operation that was in flight is run again alone in a fresh process (10 s, 1 GiB): one that again does not come back is a violation, none => inconclusive".into();
    let bin = std::env::current_exe().map(|p| p.display().to_string()).unwrap_or_default();
    confirm_runaway(&mut report, id, file, &bin, "");
    report.finish()
}

fn replay(_ctx: &Ctx, id: &str, path: &str) -> i32 {
    let text = std::fs::read_to_string(path).expect("replay file");
    let v: serde_json::Value = serde_json::from_str(&text).expect("replay json");
    let case = &v["case"];
    let key = case["type"].as_str().expect("type");
    let bytes = refcodec::unhex(case["bytes"].as_str().expect("bytes")).expect("hex");
    let schema = refcodec::zvt_schema();
    let codec = Codec::new(&schema);
    println!("replay {id}: type {key}, {} bytes: {}", bytes.len(), hex(&bytes));
    println!("reference decoder: {:?}", codec.decode(schema.get(key), &bytes).map(|(v, r)| (render_struct(&schema, schema.get(key), &v), r.len())));
    println!("real code:         {:?}", run_type(key, &bytes));
    0
}

/// Validate the reference codec against the repository's captured blobs.
pub fn selfcheck(_ctx: &Ctx) -> i32 {
    let schema = refcodec::zvt_schema();
    let codec = Codec::new(&schema);
    let repo = std::env::var("VERIF_REPO_PATH").unwrap_or_else(|_| "/repo".into());
    let dir = format!("{repo}/zvt/data");
    let mut ok = 0;
    let mut bad = 0;
    let mut names: Vec<_> = std::fs::read_dir(&dir).expect("data dir").map(|e| e.unwrap().path()).collect();
    names.sort();
    for p in names {
        let bytes = std::fs::read(&p).unwrap();
        // candidates: every type whose control field matches
        let mut matched = false;
        for def in schema.iter().filter(|d| d.cf.is_some()) {
            let (c, i) = def.cf.unwrap();
            if bytes.len() >= 2 && bytes[0] == c && bytes[1] == i {
                match codec.decode(def, &bytes) {
                    Ok((v, rest)) => {
                        let re = codec.encode(def, &v);
                        let same = re.as_deref() == Ok(&bytes[..bytes.len() - rest.len()]);
                        let real = run_type(&def.key, &bytes);
                        let agree = match &real {
                            Outcome::Ok { debug, .. } => debug == &render_struct(&schema, def, &v),
                            _ => false,
                        };
                        println!("{:60} as {:45} rest={} reencode_identical={} agrees_with_real_decoder={}", p.file_name().unwrap().to_string_lossy(), def.key, rest.len(), same, agree);
                        if agree {
                            ok += 1;
                        } else {
                            bad += 1;
                            println!("   ref : {}", short(&render_struct(&schema, def, &v)));
                            println!("   real: {real:?}");
                        }
                        matched = true;
                    }
                    Err(e) => println!("{:60} as {:45} reference error {e:?}", p.file_name().unwrap().to_string_lossy(), def.key),
                }
            }
        }
        if !matched {
            println!("{:60} NOT DECODED by any layout", p.file_name().unwrap().to_string_lossy());
        }
    }
    println!("selfcheck: {ok} agreeing decodes, {bad} disagreements");
    if bad == 0 {
        0
    } else {
        2
    }
}
