//! C07 (tokens map one-to-one onto open pre-authorisations) and C19 (idle
//! clean-up) — call histories of the real client judged against the
//! sequential client model of DESIGN Appendix D.3.

use crate::client::*;
use crate::sim::*;
use crate::Ctx;
use refcodec::evidence::{sharded, Report};
use refcodec::prng::{fnv, Rng};
use serde_json::json;
use std::collections::BTreeMap;
use std::sync::Arc;

#[derive(Clone, Debug, PartialEq)]
pub enum BeginOut {
    Success,
    Abort(u8),
    /// the terminal first reports a status information carrying a receipt number, then aborts
    AbortAfterReceipt(u8),
    NoReceipt,
    NoStatus,
}

#[derive(Clone, Debug, PartialEq)]
pub enum RevOut {
    Completed,
    /// commit only: completed, but the terminal sent no status information
    CompletedNoStatus,
    Abort(u8),
    /// abort that also carries a receipt number (BMP 87): None = echo of the request's, Some(r) = that number
    AbortRcpt(u8, Option<u64>),
}

#[derive(Clone, Debug, PartialEq)]
pub enum Step {
    Begin(String, BeginOut),
    Commit(String, u64, RevOut),
    Cancel(String, RevOut),
    /// a card is read in between: no effect on the transactions, whatever the card's status information carries
    /// (variant picks amount / receipt number / maximum pre-authorisation values that resemble the open transactions)
    ReadCard(u8),
}

/// A card whose status information is as rich as a payment's: amount, trace number, a receipt number that equals
/// one issued for an open transaction (or the next one), and a maximum pre-authorisation amount around the configured one.
pub fn rich_card(variant: u8, pre_amount: u64, open_receipts: &[u64], next_receipt: u64) -> CardData {
    let v = variant as u64;
    let receipt = match v % 4 {
        0 => None,
        1 => open_receipts.first().cloned().or(Some(next_receipt)),
        2 => Some(next_receipt),
        _ => Some(9999),
    };
    let max_pre = match (v / 4) % 6 {
        0 => None,
        1 => Some(0),
        2 => Some(pre_amount.saturating_sub(1)),
        3 => Some(pre_amount),
        4 => Some(pre_amount + 1),
        _ => Some(1),
    };
    let status = if (v / 24) % 2 == 0 { Some(StatusFields { amount: Some(match (v / 48) % 3 { 0 => 0, 1 => pre_amount / 2, _ => 999_999 }), trace_number: Some(4711), date: Some(1231), time: Some(235959), terminal_id: Some(87654321), currency: Some(if v % 2 == 0 { 978 } else { 840 }), card_name: Some("girocard".into()), result_code: None }) } else { None };
    CardData { uid: Some("000000000000081ca72f".into()), status, receipt, max_pre_auth: max_pre, ..CardData::default() }
}

/// How the terminal behaves during an idle clean-up.
#[derive(Clone, Debug, PartialEq)]
pub struct Cleanup {
    /// what the pending query reports: None = no dangling (FFFF), Some(None) = receipt field absent, Some(Some(d)) = dangling d
    pub pending: Option<Option<u64>>,
    /// abort code for the reversal of the dangling pre-authorisation
    pub reversal_abort: Option<u8>,
    /// None = completion
    pub eod_abort: Option<u8>,
    /// the end-of-day abort also carries a receipt number (BMP 87): None = no such field
    pub eod_abort_receipt: Option<u64>,
    pub eod_pre: Vec<Pre>,
}

impl Cleanup {
    pub fn plain() -> Cleanup {
        Cleanup { pending: None, reversal_abort: None, eod_abort: None, eod_abort_receipt: None, eod_pre: vec![] }
    }
}

/// The sequential specification (D.3).
#[derive(Clone, Debug, Default)]
pub struct Model {
    pub open: BTreeMap<String, u64>,
    pub max: usize,
}

#[derive(Clone, Debug, PartialEq)]
pub enum Expect {
    /// refused with this class, no traffic
    Refused(ErrClass),
    /// accepted; `ok`: the call must succeed; kinds of requests in order
    Accepted { ok: bool, requests: Vec<Cmd>, cleanup: bool },
}

thread_local! {
    /// the terminal of the histories built on this thread issues only this many different receipt numbers (0: all
    /// different) - see `Plan::receipt_cycle`
    pub static RECEIPT_CYCLE: std::cell::Cell<u64> = const { std::cell::Cell::new(0) };
}

pub struct Built {
    pub scenario: Scenario,
    pub expects: Vec<Expect>,
    /// model.open after each call
    pub open_after: Vec<BTreeMap<String, u64>>,
    /// clean-up behaviour used by call i (if it runs one)
    pub cleanups: Vec<Option<Cleanup>>,
}

/// Build the scenario (calls + terminal plan) for a history and what the model expects of it.
/// Receipts are predicted from the terminal's counter (231, 232, ...): every successful reservation takes the next one.
pub fn build(cfg: &ClientCfg, steps: &[Step], cleanup_for: &dyn Fn(usize) -> Cleanup) -> Built {
    let mut sc = Scenario { cfg: cfg.clone(), ..Scenario::default() };
    sc.sim_serial = cfg.serial.clone();
    sc.sim_terminal_id = cfg.terminal_id.clone();
    let mut model = Model { open: BTreeMap::new(), max: cfg.max_tx };
    let mut next_receipt = 231u64;
    let mut issued = 0u64;
    sc.plan.receipt_cycle = RECEIPT_CYCLE.with(|c| c.get());
    let mut expects = vec![];
    let mut open_after = vec![];
    let mut cleanups = vec![];
    for (i, st) in steps.iter().enumerate() {
        let call = i + 2; // call 1 is Feig::new
        let mut cl_used = None;
        let mut do_cleanup = |sc: &mut Scenario, reqs: &mut Vec<Cmd>| -> bool {
            // returns whether the clean-up itself succeeds
            let cl = cleanup_for(i);
            reqs.push(Cmd::PendingQuery);
            sc.plan.push(call, Cmd::PendingQuery, ExPlan { pending_override: cl.pending.or(Some(Some(0xffff))), ..ExPlan::default() });
            let mut ok = true;
            if let Some(Some(d)) = cl.pending {
                if d != 0xffff {
                    reqs.push(Cmd::PreAuthReversal);
                    sc.plan.push(call, Cmd::PreAuthReversal, ExPlan { result: cl.reversal_abort.map(ExResult::Abort).unwrap_or(ExResult::Normal), ..ExPlan::default() });
                    if cl.reversal_abort.is_some() {
                        ok = false;
                    }
                }
            }
            if ok {
                reqs.push(Cmd::EndOfDay);
                sc.plan.push(call, Cmd::EndOfDay, ExPlan { pre: cl.eod_pre.clone(), result: match (cl.eod_abort, cl.eod_abort_receipt) {
                    (None, _) => ExResult::Normal,
                    (Some(c), None) => ExResult::Abort(c),
                    (Some(c), Some(r)) => ExResult::AbortWithReceipt(c, Some(r)),
                }, ..ExPlan::default() });
                if let Some(c) = cl.eod_abort {
                    if c != 0xa0 {
                        ok = false;
                    }
                }
            }
            cl_used = Some(cl);
            ok
        };
        let exp = match st {
            Step::ReadCard(variant) => {
                sc.calls.push(Call::ReadCard);
                let open: Vec<u64> = model.open.values().cloned().collect();
                sc.plan.push(call, Cmd::ReadCard, ExPlan { card: Some(rich_card(*variant, cfg.pre_amount as u64, &open, next_receipt)), ..ExPlan::default() });
                Expect::Accepted { ok: true, requests: vec![Cmd::ReadCard], cleanup: false }
            }
            Step::Begin(t, out) => {
                sc.calls.push(Call::Begin(t.clone()));
                if model.open.len() == model.max || model.open.contains_key(t) {
                    Expect::Refused(ErrClass::ActiveTransaction)
                } else {
                    let mut pre = vec![];
                    let result = match out {
                        BeginOut::Success => ExResult::Normal,
                        BeginOut::Abort(c) => ExResult::Abort(*c),
                        BeginOut::AbortAfterReceipt(c) => {
                            pre = vec![Pre::Intermediate { status: 0x0e, timeout: 0 }, Pre::ReceiptStatus(9000 + i as u64)];
                            ExResult::Abort(*c)
                        }
                        BeginOut::NoReceipt => ExResult::NoReceipt,
                        BeginOut::NoStatus => ExResult::NoStatus,
                    };
                    sc.plan.push(call, Cmd::Reservation, ExPlan { pre, result, ..ExPlan::default() });
                    if *out == BeginOut::Success {
                        model.open.insert(t.clone(), next_receipt);
                        next_receipt = if next_receipt >= 9999 { 1 } else { next_receipt + 1 };
                        let cycle = RECEIPT_CYCLE.with(|c| c.get());
                        if cycle > 0 {
                            issued += 1;
                            next_receipt = 231 + issued % cycle;
                        }
                    }
                    Expect::Accepted { ok: *out == BeginOut::Success, requests: vec![Cmd::Reservation], cleanup: false }
                }
            }
            Step::Commit(t, amount, out) => {
                sc.calls.push(Call::Commit(t.clone(), *amount));
                if !model.open.contains_key(t) {
                    Expect::Refused(ErrClass::UnknownToken)
                } else {
                    model.open.remove(t);
                    let result = match out {
                        RevOut::Completed => ExResult::Normal,
                        RevOut::CompletedNoStatus => ExResult::NoStatus,
                        RevOut::Abort(c) => ExResult::Abort(*c),
                        RevOut::AbortRcpt(c, r) => ExResult::AbortWithReceipt(*c, *r),
                    };
                    sc.plan.push(call, Cmd::PartialReversal, ExPlan { result, ..ExPlan::default() });
                    let mut reqs = vec![Cmd::PartialReversal];
                    match out {
                        RevOut::Abort(_) | RevOut::AbortRcpt(..) => Expect::Accepted { ok: false, requests: reqs, cleanup: false },
                        _ => {
                            let mut ok = *out == RevOut::Completed;
                            let mut cleanup = false;
                            if model.open.is_empty() {
                                cleanup = true;
                                ok &= do_cleanup(&mut sc, &mut reqs);
                            }
                            Expect::Accepted { ok, requests: reqs, cleanup }
                        }
                    }
                }
            }
            Step::Cancel(t, out) => {
                sc.calls.push(Call::Cancel(t.clone()));
                if !model.open.contains_key(t) {
                    Expect::Refused(ErrClass::UnknownToken)
                } else {
                    model.open.remove(t);
                    let result = match out {
                        RevOut::Abort(c) => ExResult::Abort(*c),
                        RevOut::AbortRcpt(c, r) => ExResult::AbortWithReceipt(*c, *r),
                        _ => ExResult::Normal,
                    };
                    sc.plan.push(call, Cmd::PreAuthReversal, ExPlan { result, ..ExPlan::default() });
                    let mut reqs = vec![Cmd::PreAuthReversal];
                    match out {
                        RevOut::Abort(_) | RevOut::AbortRcpt(..) => Expect::Accepted { ok: false, requests: reqs, cleanup: false },
                        _ => {
                            let mut ok = true;
                            let mut cleanup = false;
                            if model.open.is_empty() {
                                cleanup = true;
                                ok &= do_cleanup(&mut sc, &mut reqs);
                            }
                            Expect::Accepted { ok, requests: reqs, cleanup }
                        }
                    }
                }
            }
        };
        expects.push(exp);
        open_after.push(model.open.clone());
        cleanups.push(cl_used);
    }
    Built { scenario: sc, expects, open_after, cleanups }
}

fn steps_json(steps: &[Step]) -> serde_json::Value {
    json!(steps.iter().map(|s| format!("{s:?}")).collect::<Vec<_>>())
}

/// Judge one executed history.  `prop`: "C07" or "C19".
pub fn judge(r: &mut Report, prop: &str, steps: &[Step], b: &Built, tr: &Trace) {
    let sc = &b.scenario;
    let case = || {
        let mut c = case_json(sc, tr);
        c["steps"] = steps_json(steps);
        c["model_open_after_each_call"] = json!(b.open_after.iter().map(|m| format!("{m:?}")).collect::<Vec<_>>());
        c
    };
    // Feig::new must have worked (fault-free terminal)
    if !tr.calls.first().map(|c| c.result.is_ok()).unwrap_or(false) {
        r.inconclusive(&format!("Feig::new failed in a fault-free scenario: {:?}", tr.calls.first().map(|c| c.result.short())));
        return;
    }
    for (i, st) in steps.iter().enumerate() {
        let Some(ct) = tr.calls.get(i + 1) else {
            r.inconclusive("history ended early");
            return;
        };
        let call = i + 2;
        let reqs: Vec<&Request> = tr.requests.iter().filter(|q| q.call == call).collect();
        let kinds: Vec<Cmd> = reqs.iter().map(|q| q.cmd).collect();
        let opname = ct.call.as_ref().map(|c| c.name()).unwrap_or("?");
        match &ct.result {
            CallResult::Panic(p) => {
                r.violation(&format!("{prop} {opname}: {}", panic_sig(p)), &format!("call {call} ({st:?}) panicked: {p}"), case());
                return;
            }
            CallResult::Hang => {
                r.violation(&format!("{prop} {opname}: does not return"), &format!("call {call} ({st:?}) had not returned after one virtual day"), case());
                return;
            }
            _ => {}
        }
        match &b.expects[i] {
            Expect::Refused(class) => {
                if prop == "C07" {
                    match &ct.result {
                        CallResult::Err { class: c, .. } if c == class => {}
                        other => {
                            r.violation(&format!("C07 {opname}: a call the token rules refuse is not refused with the documented error"), &format!("call {call} ({st:?}) with open tokens {:?} (max {}): expected Err({class:?}), got {}", if i == 0 { BTreeMap::new() } else { b.open_after[i - 1].clone() }, sc.cfg.max_tx, other.short()), case());
                            return;
                        }
                    }
                    if !reqs.is_empty() {
                        r.violation(&format!("C07 {opname}: a refused call produced traffic to the terminal"), &format!("call {call} ({st:?}) was refused but sent {kinds:?}"), case());
                        return;
                    }
                    let opened = tr.log.iter().any(|e| e.call == call && e.dir == Dir::Open);
                    if opened {
                        r.violation(&format!("C07 {opname}: a refused call opened a connection"), &format!("call {call}"), case());
                        return;
                    }
                }
            }
            Expect::Accepted { ok, requests, cleanup } => {
                if prop == "C07" {
                    // result class
                    let refused_class = matches!(&ct.result, CallResult::Err { class: ErrClass::ActiveTransaction | ErrClass::UnknownToken, .. });
                    if refused_class {
                        r.violation(&format!("C07 {opname}: a call the token rules accept is refused"), &format!("call {call} ({st:?}) with open tokens {:?} (max {}): got {}", if i == 0 { BTreeMap::new() } else { b.open_after[i - 1].clone() }, sc.cfg.max_tx, ct.result.short()), case());
                        return;
                    }
                    if ct.result.is_ok() != *ok {
                        r.violation(&format!("C07 {opname}: result differs from the model ({})", if *ok { "expected Ok" } else { "expected an error" }), &format!("call {call} ({st:?}): got {}", ct.result.short()), case());
                        return;
                    }
                    // the own exchange comes first and carries this token's receipt number
                    if kinds.first() != requests.first() {
                        r.violation(&format!("C07 {opname}: first request is not the call's own exchange"), &format!("call {call} ({st:?}): requests {kinds:?}, expected {requests:?}"), case());
                        return;
                    }
                    match st {
                        Step::Commit(t, ..) | Step::Cancel(t, ..) => {
                            let want = if i == 0 { None } else { b.open_after[i - 1].get(t).cloned() };
                            let got = reqs[0].val.field("receipt_no").and_then(|x| x.num()).map(|x| x as u64);
                            if got != want {
                                r.violation(&format!("C07 {opname}: acts on another receipt number than the one issued for the token"), &format!("call {call} ({st:?}): request carries receipt {got:?}, the terminal issued {want:?} for this token"), case());
                                return;
                            }
                        }
                        Step::ReadCard(_) => {}
                        Step::Begin(t, _) => {
                            let tok = reqs[0].val.path("tlv.bmp_data.bmp_data").and_then(|x| x.text()).map(|s| s.to_string());
                            if tok.as_deref() != Some(t.as_str()) {
                                r.violation("C07 begin: reservation does not carry the caller's token as reference", &format!("call {call} ({st:?}): reference {tok:?}"), case());
                                return;
                            }
                        }
                    }
                    // hook: the client's own map equals the model's
                    if let Some(open) = &ct.open_after {
                        let model: Vec<(String, usize)> = b.open_after[i].iter().map(|(k, v)| (k.clone(), *v as usize)).collect();
                        if open != &model {
                            r.violation(&format!("C07 {opname}: the client's token map differs from the model after the call"), &format!("call {call} ({st:?}): client holds {open:?}, model {model:?}"), case());
                            return;
                        }
                    }
                }
                if prop == "C19" {
                    let own_completed = match st {
                        Step::Commit(_, _, o) | Step::Cancel(_, o) => !matches!(o, RevOut::Abort(_) | RevOut::AbortRcpt(..)),
                        _ => false,
                    };
                    if matches!(st, Step::Commit(..) | Step::Cancel(..)) && own_completed {
                        if *cleanup {
                            if &kinds != requests {
                                r.violation(
                                    &format!("C19 {opname}: going idle does not trigger exactly pending query -> reversal of the reported receipt -> end-of-day"),
                                    &format!("call {call} ({st:?}) leaves no transaction open; requests {kinds:?}, expected {requests:?} (clean-up behaviour {:?})", b.cleanups[i]),
                                    case(),
                                );
                                return;
                            }
                            // fields of the clean-up requests
                            for q in &reqs[1..] {
                                match q.cmd {
                                    Cmd::PreAuthReversal => {
                                        let d = b.cleanups[i].as_ref().and_then(|c| c.pending).flatten();
                                        let got = q.val.field("receipt_no").and_then(|x| x.num()).map(|x| x as u64);
                                        if got != d {
                                            r.violation("C19: reverses another receipt than the dangling one the terminal reported", &format!("call {call}: reversal of {got:?}, terminal reported {d:?}"), case());
                                            return;
                                        }
                                    }
                                    Cmd::EndOfDay => {
                                        let pw = q.val.field("password").and_then(|x| x.num());
                                        if pw != Some(sc.cfg.password as u128) {
                                            r.violation("C19: end-of-day with another password than configured", &format!("call {call}: password {pw:?}"), case());
                                            return;
                                        }
                                    }
                                    _ => {}
                                }
                            }
                            // result: tolerated A0 / completion -> the caller's own result stands; other refusal -> error
                            if ct.result.is_ok() != *ok {
                                r.violation(
                                    &format!("C19 {opname}: result after clean-up differs ({})", if *ok { "expected Ok" } else { "expected an error" }),
                                    &format!("call {call} ({st:?}) with clean-up {:?}: got {}", b.cleanups[i], ct.result.short()),
                                    case(),
                                );
                                return;
                            }
                            r.count("cleanups_observed", 1);
                            if let Some(c) = &b.cleanups[i] {
                                r.note("eod_outcomes_seen", &c.eod_abort.map(|c| format!("abort {c:02x}")).unwrap_or_else(|| "completion".into()));
                                if matches!(c.pending, Some(Some(d)) if d != 0xffff) {
                                    r.count("cleanups_with_dangling_preauthorisation", 1);
                                }
                            }
                        } else {
                            // tokens remain open: never end-of-day, never the pending query
                            if kinds.iter().any(|k| matches!(k, Cmd::EndOfDay | Cmd::PendingQuery)) {
                                r.violation(&format!("C19 {opname}: end-of-day / pending query although transactions are still open"), &format!("call {call} ({st:?}): requests {kinds:?}, open after the call {:?}", b.open_after[i]), case());
                                return;
                            }
                            r.count("commits_cancels_with_tokens_remaining", 1);
                        }
                    }
                }
            }
        }
    }
}

// ---------------------------------------------------------------- enumeration

const TOKENS: [&str; 3] = ["a", "b", "c"];
static DICT: std::sync::OnceLock<Vec<String>> = std::sync::OnceLock::new();

/// All histories of exactly `depth` steps (model-guided: outcome letters are only branched when the model accepts the call;
/// tokens are introduced in the order a, b, c).
fn enumerate(depth: usize, max_tx: usize, out: &mut Vec<Vec<Step>>) {
    fn rec(cur: &mut Vec<Step>, open: &mut Vec<String>, used: usize, depth: usize, max_tx: usize, out: &mut Vec<Vec<Step>>) {
        if cur.len() == depth {
            out.push(cur.clone());
            return;
        }
        let ntok = (used + 1).min(TOKENS.len());
        for ti in 0..ntok {
            let t = TOKENS[ti].to_string();
            let used2 = used.max(ti + 1);
            let is_open = open.contains(&t);
            // begin
            if open.len() == max_tx || is_open {
                cur.push(Step::Begin(t.clone(), BeginOut::Success));
                rec(cur, open, used2, depth, max_tx, out);
                cur.pop();
            } else {
                for o in [BeginOut::Success, BeginOut::Abort(0x6f), BeginOut::NoReceipt, BeginOut::AbortAfterReceipt(0x64)] {
                    cur.push(Step::Begin(t.clone(), o.clone()));
                    if o == BeginOut::Success {
                        open.push(t.clone());
                    }
                    rec(cur, open, used2, depth, max_tx, out);
                    if o == BeginOut::Success {
                        open.retain(|x| x != &t);
                    }
                    cur.pop();
                }
            }
            // commit / cancel
            for commit in [true, false] {
                let outs: Vec<RevOut> = if is_open { vec![RevOut::Completed, RevOut::Abort(if commit { 0xb5 } else { 0xb4 }), RevOut::AbortRcpt(0xb8, None)] } else { vec![RevOut::Completed] };
                for o in outs {
                    let amount = 100 * (cur.len() as u64 + 1);
                    cur.push(if commit { Step::Commit(t.clone(), amount, o.clone()) } else { Step::Cancel(t.clone(), o.clone()) });
                    let pos = open.iter().position(|x| x == &t);
                    if let Some(p) = pos {
                        open.remove(p);
                    }
                    rec(cur, open, used2, depth, max_tx, out);
                    if let Some(p) = pos {
                        open.insert(p, t.clone());
                    }
                    cur.pop();
                }
            }
        }
    }
    rec(&mut vec![], &mut vec![], 0, depth, max_tx, out);
}

fn random_walk(rng: &mut Rng, len: usize) -> Vec<Step> {
    let long = "T".repeat(99);
    // tokens that differ only by surrounding / inner white space, by letter case or by a trailing NUL-free suffix are
    // different tokens
    let mut pool: Vec<String> = vec!["a".into(), "b".into(), "c".into(), "".into(), long, "Zähler 7".into(), "AC".into(), "ACa".into(), "aAC".into(), "A".into(), "a ".into(), " a".into(), "a  ".into(), "a\t".into(), " ".into(), "b ".into(), "B".into()];
    if let Some(d) = DICT.get() {
        for _ in 0..3 {
            if !d.is_empty() {
                pool.push(rng.pick(d).clone());
            }
        }
    }
    (0..len)
        .map(|_| {
            let t = rng.pick(&pool).clone();
            if rng.chance(1, 12) {
                return Step::ReadCard(rng.byte());
            }
            match rng.below(10) {
                0..=3 => Step::Begin(
                    t,
                    match rng.below(6) {
                        0 => BeginOut::Abort(rng.byte()),
                        1 if rng.chance(1, 2) => BeginOut::AbortAfterReceipt(rng.byte()),
                        1 => BeginOut::NoReceipt,
                        2 => BeginOut::NoStatus,
                        _ => BeginOut::Success,
                    },
                ),
                4..=6 => Step::Commit(
                    t,
                    rng.below(5000),
                    match rng.below(7) {
                        0 => RevOut::Abort(rng.byte()),
                        1 => RevOut::CompletedNoStatus,
                        2 => {
                            let rb = rng.byte();
                            let code = *rng.pick(&[0xb8u8, 0xb4, 0xb5, 0x9c, 0x6c, 0xa0, rb]);
                            RevOut::AbortRcpt(code, *rng.pick(&[None, Some(0xffff), Some(231), Some(232)]))
                        }
                        _ => RevOut::Completed,
                    },
                ),
                _ => Step::Cancel(
                    t,
                    match rng.below(8) {
                        0 => RevOut::Abort(rng.byte()),
                        1 => {
                            let rb = rng.byte();
                            let code = *rng.pick(&[0xb8u8, 0xb4, 0xb5, 0x9c, rb]);
                            RevOut::AbortRcpt(code, *rng.pick(&[None, Some(0xffff), Some(231)]))
                        }
                        _ => RevOut::Completed,
                    },
                ),
            }
        })
        .collect()
}

fn hash_history(steps: &[Step], max_tx: usize, extra: u64) -> u64 {
    fnv(format!("{steps:?}|{max_tx}|{extra}").as_bytes())
}

pub fn run(ctx: &Ctx, id: &str) -> i32 {
    let mut report = ctx.report(id, "exploration");
    let depth = match (id, ctx.quick()) {
        ("C07", true) => 5,
        ("C07", false) => 6,
        (_, true) => 5,
        (_, false) => 6,
    };
    let n_walks = ctx.by(4_000usize, 200_000usize);
    report.rule = if id == "C07" {
        format!("call histories of begin/commit/cancel over tokens {{a,b,c}} (tokens introduced in this order: symmetry), model-guided bounded-exhaustive: every history of exactly {depth} calls with every terminal outcome (reservation: success / abort / missing receipt / abort after a status information that already carried a receipt number; reversal: completed / abort / abort B8 echoing the request's receipt number) branched where the model accepts the call, x transactions_max_num 0..3; then a probe suffix cancel(a), cancel(b), cancel(c); plus {n_walks} random walks to depth 40 with empty / 99-byte / non-ASCII tokens and max 0..4. Additionally: pairs of tokens that are equal after trimming white space / case folding (different tokens: both stay open), card reads interleaved with the transaction calls (the card's status information carrying an amount, a receipt number equal to an open transaction's, and a maximum pre-authorisation amount around the configured one: no effect on the tokens allowed), every abort code 0..255 for a reservation while another transaction is open, every abort code 0..255 x {{no receipt, own receipt echoed, FFFF, another receipt}} for commit and cancel with one and two open transactions, and a link fault (close/garbage/NACK/foreign/silence/reply-then-close) at every packet of the reservation exchange followed by commit/cancel (the token must map to the receipt of the reservation that completed); every fifth history runs against a terminal whose receipt numbers repeat (one number for every reservation / two in turn), so that tokens open at the same time share a number. Oracle: sequential client model (D.3) for the result class, 'refused => no request and no connection', 'commit/cancel carry the receipt number the terminal issued for that token', and the hook snapshot of the client's map after every call. Non-trivial = history with at least one accepted call; distinct by hash of (history, max).")
    } else {
        format!("the C07 histories (exactly {depth} calls, max 1..3) and {n_walks} random walks, each run under a clean-up behaviour chosen per scenario: pending query reports {{no receipt field, FFFF, a dangling receipt}}, reversal of the dangling receipt {{completes, aborts}}, end-of-day {{completion, abort A0, every abort code 00..FF in turn, aborts (B8, A0, B4, ...) that also carry a receipt number}}, with intermediate/print packets inside the end-of-day exchange; every end-of-day abort code at an idle point followed by two open transactions of which one is completed while the other stays open. Oracle (temporal checker over the request log per call): a commit/cancel the terminal completed that leaves no token open is followed by exactly PendingQuery -> PreAuthReversal(d) iff d reported -> EndOfDay(password); result Ok on completion/A0, error otherwise; with tokens remaining no PendingQuery/EndOfDay. Non-trivial = history containing at least one completed commit/cancel; distinct by hash of (history, max, clean-up behaviour).")
    };
    report.exhaustive = Some(true);
    report.assumptions = vec![
        "transport is fault-free here (faults are C09's); the simulated terminal issues receipt numbers from a counter (unique, except in the histories with repeating numbers)".into(),
        "Feig::new's own configure is part of every scenario (call 1) and must succeed".into(),
    ];
    let schema = Arc::new(refcodec::zvt_schema());
    let _ = DICT.set(crate::c08::dictionary());
    let threads = ctx.threads;
    let seed = ctx.seed;
    let quick = ctx.quick();
    let maxes: Vec<usize> = if id == "C07" { vec![0, 1, 2, 3] } else { vec![1, 2, 3] };
    let mut all: Vec<(usize, Vec<Step>)> = vec![];
    for m in &maxes {
        let mut hs = vec![];
        enumerate(depth, *m, &mut hs);
        all.extend(hs.into_iter().map(|h| (*m, h)));
    }
    report.extra.insert("enumerated_histories".into(), json!(all.len()));
    report.extra.insert("depth".into(), json!(depth));
    let eod_codes: Vec<u8> = (0..=255u8).collect();
    let _ = quick;
    sharded(&mut report, threads, |shard, r| {
        let mut rng = Rng::derive(seed, 0xC07 + shard as u64);
        let mut k = 0usize;
        let fixed_cleanup: std::cell::RefCell<Option<Cleanup>> = std::cell::RefCell::new(None);
        let fixed_cleanup = &fixed_cleanup;
        let mut run_one = |r: &mut Report, rng: &mut Rng, max_tx: usize, mut steps: Vec<Step>, k: usize| {
            if id == "C07" {
                // probe suffix: makes the hidden map observable at the boundary
                for t in TOKENS {
                    steps.push(Step::Cancel(t.to_string(), RevOut::Completed));
                }
            }
            let cfg = ClientCfg { max_tx, pre_amount: 2500 + (k as usize % 7) * 1000, ..ClientCfg::default() };
            // clean-up behaviour of this scenario
            let variant = rng.below(1 << 20);
            let code = eod_codes[k % eod_codes.len()];
            let fixed = fixed_cleanup.borrow().clone();
            let cleanup_for = move |i: usize| -> Cleanup {
                if let Some(c) = &fixed {
                    return c.clone();
                }
                // C07: plain clean-ups for the enumerated histories of even index, varied ones otherwise (what an
                // earlier clean-up left behind must not show in later token decisions)
                if id == "C07" && k % 2 == 0 {
                    return Cleanup::plain();
                }
                // a pseudo-random but reproducible choice per (scenario, step): every combination of behaviours of consecutive
                // clean-ups occurs (an arithmetic progression here made "the same dangling receipt twice in a row" impossible)
                let v = fnv(&[variant.to_le_bytes(), (i as u64).to_le_bytes()].concat()) >> 8;
                Cleanup {
                    pending: match v % 4 {
                        0 => None,
                        1 => Some(None),
                        2 => Some(Some(0xffff)),
                        // half of the scenarios draw the dangling receipt from {77, 78}: consecutive clean-ups then report
                        // the same number again (a terminal that restarts its numbering)
                        _ => Some(Some(if variant % 2 == 0 { 77 + (v / 4) % 2 } else { 1 + (v / 4) % 9999 })),
                    },
                    reversal_abort: if (v / 64) % 5 == 0 { Some(0xb4) } else { None },
                    eod_abort: match (v / 512) % 3 {
                        0 => None,
                        1 => Some(code),
                        _ => Some([0xb8u8, 0xa0, 0xb4, code][((v / 7) % 4) as usize]),
                    },
                    eod_abort_receipt: match (v / 128) % 4 {
                        0 => Some(1 + (v / 5) % 9999),
                        1 => Some(0xffff),
                        _ => None,
                    },
                    eod_pre: match (v / 4096) % 4 {
                        0 => vec![],
                        1 => vec![Pre::Intermediate { status: 0x0c, timeout: 3 }],
                        2 => vec![Pre::PrintLine("Tagesabschluss".into()), Pre::PlainStatus],
                        _ => vec![Pre::PrintTextBlock, Pre::Intermediate { status: 0xff, timeout: 0 }],
                    },
                }
            };
            let b = build(&cfg, &steps, &cleanup_for);
            let tr = run_scenario(&b.scenario, &schema);
            let accepted = b.expects.iter().any(|e| matches!(e, Expect::Accepted { .. }));
            let nontrivial = if id == "C07" { accepted } else { b.expects.iter().any(|e| matches!(e, Expect::Accepted { cleanup: true, .. })) || accepted };
            r.case(hash_history(&steps, max_tx, if id == "C07" { 0 } else { variant ^ code as u64 }), nontrivial);
            r.count("calls_executed", tr.calls.len() as u64);
            r.count("requests_observed", tr.requests.len() as u64);
            let states: std::collections::BTreeSet<String> = b.open_after.iter().filter(|m| m.keys().all(|k| k.len() <= 8)).map(|m| format!("{:?}/{}", m.keys().collect::<Vec<_>>(), max_tx)).collect();
            for s in states {
                r.note("model_states_visited", &s);
            }
            judge(r, id, &steps, &b, &tr);
            if r.wants_sample() && steps.len() >= 4 && accepted {
                r.sample(json!({"max": max_tx, "history": steps_json(&steps), "results": tr.calls.iter().map(|c| c.result.short()).collect::<Vec<_>>(), "requests": tr.requests.iter().filter(|q| q.call >= 2).map(|q| format!("call {} {:?}", q.call, q.cmd)).collect::<Vec<_>>()}));
            }
        };
        for (m, h) in all.iter() {
            k += 1;
            if k % threads != shard {
                continue;
            }
            // every fifth history against a terminal whose receipt numbers repeat (one number for all / two in turn): tokens
            // that are open at the same time then share a number, and still each call acts on its own token only
            let cycle = if k / threads % 5 == 3 { 1 + (k / threads / 5 % 2) as u64 } else { 0 };
            RECEIPT_CYCLE.with(|c| c.set(cycle));
            if cycle > 0 {
                r.count("histories_with_repeating_receipt_numbers", 1);
            }
            run_one(r, &mut rng, *m, h.clone(), k);
            RECEIPT_CYCLE.with(|c| c.set(0));
        }
        for w in 0..n_walks / threads {
            let len = 1 + rng.below(40) as usize;
            let steps = random_walk(&mut rng, len);
            let max_tx = rng.below(5) as usize;
            let cycle = if w % 5 == 3 { 1 + (w / 5 % 2) as u64 } else { 0 };
            RECEIPT_CYCLE.with(|c| c.set(cycle));
            if cycle > 0 {
                r.count("histories_with_repeating_receipt_numbers", 1);
            }
            run_one(r, &mut rng, max_tx, steps, w);
            RECEIPT_CYCLE.with(|c| c.set(0));
        }
        // every abort code x {no receipt, the request's own receipt, FFFF, another receipt} for commit and for cancel,
        // with one and with two transactions open: the token must be closed whatever the terminal says
        for code in (0..=255u8).filter(|c| *c as usize % threads == shard) {
            for rcpt in [None, Some(None), Some(Some(0xffffu64)), Some(Some(232u64))] {
                let out = match rcpt {
                    None => RevOut::Abort(code),
                    Some(r) => RevOut::AbortRcpt(code, r),
                };
                for commit in [true, false] {
                    for two in [false, true] {
                        let mut steps = vec![Step::Begin("a".into(), BeginOut::Success)];
                        if two {
                            steps.push(Step::Begin("b".into(), BeginOut::Success));
                        }
                        steps.push(if commit { Step::Commit("a".into(), 700, out.clone()) } else { Step::Cancel("a".into(), out.clone()) });
                        if two {
                            steps.push(Step::Cancel("b".into(), RevOut::Completed));
                        }
                        steps.push(Step::Begin("c".into(), BeginOut::Success));
                        run_one(r, &mut rng, if two { 2 } else { 1 }, steps, code as usize);
                        r.count("abort_code_sweep_histories", 1);
                    }
                }
            }
        }
        // every abort code for a reservation while another transaction is open: only the new token stays closed
        for code in (0..=255u8).filter(|c| *c as usize % threads == shard) {
            for after_receipt in [false, true] {
                let out = if after_receipt { BeginOut::AbortAfterReceipt(code) } else { BeginOut::Abort(code) };
                let steps = vec![Step::Begin("a".into(), BeginOut::Success), Step::Begin("b".into(), out.clone()), Step::Commit("a".into(), 900, RevOut::Completed), Step::Begin("b".into(), BeginOut::Success), Step::Begin("c".into(), out), Step::Cancel("b".into(), RevOut::Completed)];
                run_one(r, &mut rng, 2, steps, code as usize);
                r.count("abort_code_sweep_histories", 1);
            }
        }
        // the same clean-up behaviour at every idle point of a history with three of them: the terminal reports the same
        // dangling receipt each time (it restarts its numbering) / nothing / FFFF - each clean-up is complete in itself
        if shard == 0 {
            for pending in [Some(Some(77u64)), Some(Some(1)), Some(Some(9999)), None, Some(Some(0xffff)), Some(None)] {
                for eod_abort in [None, Some(0xa0u8)] {
                    *fixed_cleanup.borrow_mut() = Some(Cleanup { pending, reversal_abort: None, eod_abort, eod_abort_receipt: None, eod_pre: vec![] });
                    let steps = vec![
                        Step::Begin("a".into(), BeginOut::Success),
                        Step::Commit("a".into(), 300, RevOut::Completed),
                        Step::Begin("b".into(), BeginOut::Success),
                        Step::Cancel("b".into(), RevOut::Completed),
                        Step::Begin("c".into(), BeginOut::Success),
                        Step::Commit("c".into(), 900, RevOut::Completed),
                    ];
                    run_one(r, &mut rng, 1, steps, 0);
                    r.count("histories_with_the_same_cleanup_three_times", 1);
                }
            }
            *fixed_cleanup.borrow_mut() = None;
        }
        // every end-of-day abort code at an idle point, followed by two transactions of which one is completed while the
        // other stays open (no clean-up may run then, whatever the earlier end-of-day was refused with), then the other
        for code in (0..=255u8).filter(|c| *c as usize % threads == shard) {
            for with_receipt in [false, true] {
                *fixed_cleanup.borrow_mut() = Some(Cleanup { pending: Some(Some(0xffff)), reversal_abort: None, eod_abort: Some(code), eod_abort_receipt: if with_receipt { Some(0xffff) } else { None }, eod_pre: vec![] });
                for commit in [true, false] {
                    let steps = vec![
                        Step::Begin("a".into(), BeginOut::Success),
                        Step::Commit("a".into(), 300, RevOut::Completed),
                        Step::Begin("b".into(), BeginOut::Success),
                        Step::Begin("c".into(), BeginOut::Success),
                        if commit { Step::Commit("b".into(), 700, RevOut::Completed) } else { Step::Cancel("b".into(), RevOut::Completed) },
                        Step::Cancel("c".into(), RevOut::Completed),
                    ];
                    run_one(r, &mut rng, 2, steps, code as usize);
                    r.count("histories_with_a_refused_end_of_day_before_two_open_transactions", 1);
                }
            }
            *fixed_cleanup.borrow_mut() = None;
        }
        // tokens that are equal after trimming / case folding are different tokens: both stay open, each acts on its own receipt
        for (ti, (t1, t2)) in [("cust-1", "cust-1 "), ("cust-1", " cust-1"), ("x", "X"), ("x", "x\t"), (" ", ""), ("ab", "a b")].iter().enumerate() {
            if ti % threads != shard % threads {
                continue;
            }
            for commit_first in [true, false] {
                let (a, b) = (t1.to_string(), t2.to_string());
                let steps = vec![
                    Step::Begin(a.clone(), BeginOut::Success),
                    Step::Begin(b.clone(), BeginOut::Success),
                    if commit_first { Step::Commit(a.clone(), 500, RevOut::Completed) } else { Step::Cancel(b.clone(), RevOut::Completed) },
                    Step::Begin(if commit_first { a.clone() } else { b.clone() }, BeginOut::Success),
                    Step::Cancel(a.clone(), RevOut::Completed),
                    Step::Commit(b.clone(), 700, RevOut::Completed),
                ];
                run_one(r, &mut rng, 2, steps, ti);
                r.count("near_equal_token_histories", 1);
            }
        }
        // a card read before / between / after the transaction calls, its status information resembling a payment's
        for variant in (0..144u8).filter(|c| *c as usize % threads == shard) {
            let steps = vec![Step::ReadCard(variant), Step::Begin("a".into(), BeginOut::Success), Step::ReadCard(variant.wrapping_add(5)), Step::Begin("b".into(), BeginOut::Success), Step::Commit("a".into(), 1200, RevOut::Completed), Step::ReadCard(variant.wrapping_add(11)), Step::Cancel("b".into(), RevOut::Completed), Step::Begin("c".into(), BeginOut::Success)];
            run_one(r, &mut rng, 2, steps, variant as usize);
            r.count("read_card_interleaved_histories", 1);
        }
        // a link fault at every packet of the reservation exchange: the client re-sends the reservation, the terminal
        // issues another receipt number; begin must record the receipt of the reservation that completed
        if id == "C07" {
            for kind in [FaultKind::Close, FaultKind::Garbage, FaultKind::Nack, FaultKind::Foreign, FaultKind::Silence, FaultKind::CloseAfter] {
                for p in (0..5usize).filter(|p| (*p + format!("{kind:?}").len()) % threads == shard % threads || threads > 25) {
                    let cfg = ClientCfg { max_tx: 1, ..ClientCfg::default() };
                    let mut sc = Scenario { cfg: cfg.clone(), ..Scenario::default() };
                    sc.calls = vec![Call::Begin("a".into()), Call::Commit("a".into(), 100), Call::Begin("b".into()), Call::Cancel("b".into())];
                    for call in [2usize, 4] {
                        for _ in 0..2 {
                            sc.plan.push(call, Cmd::Reservation, ExPlan { pre: vec![Pre::Intermediate { status: 0x0e, timeout: 0 }], ..ExPlan::default() });
                        }
                        sc.plan.faults.push(FaultSpec { call, at: At::Tx(p), kind });
                    }
                    let tr = run_scenario(&sc, &schema);
                    r.case(fnv(format!("begin-under-fault {kind:?} {p}").as_bytes()), true);
                    r.count("begin_under_fault_scenarios", 1);
                    for (tok, begin_call, use_call, cmd) in [("a", 2usize, 3usize, Cmd::PartialReversal), ("b", 4, 5, Cmd::PreAuthReversal)] {
                        let began = tr.calls.iter().find(|c| c.index == begin_call).map(|c| c.result.is_ok()).unwrap_or(false);
                        let issued = tr.ledger.iter().rev().find(|x| x.token == tok).map(|x| x.receipt);
                        let used = tr.requests.iter().find(|q| q.call == use_call && q.cmd == cmd).and_then(|q| q.val.field("receipt_no").and_then(|x| x.num())).map(|x| x as u64);
                        let hook = tr.calls.iter().find(|c| c.index == begin_call).and_then(|c| c.open_after.clone()).and_then(|m| m.iter().find(|(k, _)| k == tok).map(|(_, v)| *v as u64));
                        if began && (used != issued || hook != issued) {
                            let mut c = case_json(&sc, &tr);
                            c["note"] = json!("link fault during the reservation; the client re-sent it");
                            r.violation(
                                "C07 begin: after a re-sent reservation the token is not mapped to the receipt number of the reservation that completed",
                                &format!("{kind:?} at packet {p} of begin({tok}): terminal's last reservation for the token has receipt {issued:?}, the client recorded {hook:?} and later acted on {used:?}"),
                                c,
                            );
                        }
                    }
                }
            }
        }
    });
    report.finish()
}
