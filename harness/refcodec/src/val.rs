//! Value model of the reference codec and its rendering in the format of
//! Rust's derived `Debug` (the bridge to typed values, DESIGN §5.3).

use crate::layout::*;

#[derive(Clone, Debug, PartialEq)]
pub enum Val {
    Num(u128),
    /// CP437 / UTF-8 text
    Text(String),
    /// lower-case hex string
    Hex(String),
    Bytes(Vec<u8>),
    /// year, month, day, hour, minute, second
    DateTime([u32; 6]),
    Struct(Vec<(String, Val)>),
    Opt(Option<Box<Val>>),
    List(Vec<Val>),
}

impl Val {
    pub fn some(v: Val) -> Val {
        Val::Opt(Some(Box::new(v)))
    }
    pub fn none() -> Val {
        Val::Opt(None)
    }
    pub fn field(&self, name: &str) -> Option<&Val> {
        match self {
            Val::Struct(fs) => fs.iter().find(|(n, _)| n == name).map(|(_, v)| v),
            _ => None,
        }
    }
    pub fn field_mut(&mut self, name: &str) -> Option<&mut Val> {
        match self {
            Val::Struct(fs) => fs.iter_mut().find(|(n, _)| n == name).map(|(_, v)| v),
            _ => None,
        }
    }
    /// `Opt(Some(x))` -> x ; anything else -> itself ; `Opt(None)` -> None
    pub fn inner(&self) -> Option<&Val> {
        match self {
            Val::Opt(None) => None,
            Val::Opt(Some(b)) => Some(b),
            v => Some(v),
        }
    }
    pub fn num(&self) -> Option<u128> {
        match self.inner()? {
            Val::Num(n) => Some(*n),
            _ => None,
        }
    }
    pub fn text(&self) -> Option<&str> {
        match self.inner()? {
            Val::Text(s) | Val::Hex(s) => Some(s),
            _ => None,
        }
    }
    pub fn list(&self) -> &[Val] {
        match self {
            Val::List(v) => v,
            _ => &[],
        }
    }
    /// Path access `a.b.c` through structs and options.
    pub fn path(&self, path: &str) -> Option<&Val> {
        let mut cur = self;
        for p in path.split('.') {
            cur = cur.inner()?.field(p)?;
        }
        Some(cur)
    }
}

fn render_scalar(schema: &Schema, enc: &Enc, v: &Val, out: &mut String) {
    use std::fmt::Write;
    match (enc, v) {
        (Enc::Int { .. } | Enc::Bcd(_) | Enc::Rcpt, Val::Num(n)) => write!(out, "{n}").unwrap(),
        (Enc::Cp437 | Enc::Utf8, Val::Text(s)) | (Enc::Hex, Val::Hex(s)) => write!(out, "{s:?}").unwrap(),
        (Enc::Bytes, Val::Bytes(b)) => write!(out, "{b:?}").unwrap(),
        (Enc::DateTime, Val::DateTime(d)) => {
            write!(out, "{:04}-{:02}-{:02}T{:02}:{:02}:{:02}", d[0], d[1], d[2], d[3], d[4], d[5]).unwrap()
        }
        (Enc::Struct(k), v @ Val::Struct(_)) => render_struct_into(schema, schema.get(k), v, out),
        (e, v) => panic!("render: value {v:?} does not fit encoding {e:?}"),
    }
}

pub fn render_field(schema: &Schema, f: &Field, v: &Val, out: &mut String) {
    match (f.card, v) {
        (Card::One, v) => render_scalar(schema, &f.enc, v, out),
        (Card::Opt, Val::Opt(None)) => out.push_str("None"),
        (Card::Opt, Val::Opt(Some(b))) => {
            out.push_str("Some(");
            render_scalar(schema, &f.enc, b, out);
            out.push(')');
        }
        (Card::Many, Val::List(items)) => {
            out.push('[');
            for (i, it) in items.iter().enumerate() {
                if i > 0 {
                    out.push_str(", ");
                }
                render_scalar(schema, &f.enc, it, out);
            }
            out.push(']');
        }
        (c, v) => panic!("render: value {v:?} does not fit cardinality {c:?} of {}", f.name),
    }
}

pub fn render_struct_into(schema: &Schema, def: &StructDef, v: &Val, out: &mut String) {
    let Val::Struct(fields) = v else {
        panic!("render: not a struct: {v:?}")
    };
    out.push_str(def.ident());
    if def.fields.is_empty() {
        return;
    }
    out.push_str(" { ");
    for (i, f) in def.fields.iter().enumerate() {
        if i > 0 {
            out.push_str(", ");
        }
        out.push_str(&f.name);
        out.push_str(": ");
        let fv = &fields.iter().find(|(n, _)| n == &f.name).unwrap_or_else(|| panic!("render: field {} missing", f.name)).1;
        render_field(schema, f, fv, out);
    }
    out.push_str(" }");
}

/// The string `format!("{:?}", x)` must produce for the typed value `x` that
/// equals `v`.
pub fn render_struct(schema: &Schema, def: &StructDef, v: &Val) -> String {
    let mut s = String::new();
    render_struct_into(schema, def, v, &mut s);
    s
}

/// Where two renderings first differ: returns the name of the innermost
/// `field:` label preceding the first differing byte of `expected`.
pub fn first_diff_field(expected: &str, observed: &str) -> String {
    let n = expected
        .bytes()
        .zip(observed.bytes())
        .take_while(|(a, b)| a == b)
        .count();
    let head = &expected[..{
        let mut k = n.min(expected.len());
        while !expected.is_char_boundary(k) {
            k -= 1;
        }
        k
    }];
    // last "name: " label in head
    let mut best = String::from("?");
    let bytes = head.as_bytes();
    let mut i = 0;
    while i < bytes.len() {
        if bytes[i] == b':' && i + 1 < bytes.len() && bytes[i + 1] == b' ' {
            let mut j = i;
            while j > 0 && (bytes[j - 1].is_ascii_alphanumeric() || bytes[j - 1] == b'_') {
                j -= 1;
            }
            if j < i {
                best = head[j..i].to_string();
            }
        }
        i += 1;
    }
    best
}

/// Compact JSON-ish rendering of a value for replay/evidence files.
pub fn val_to_json(v: &Val) -> serde_json::Value {
    use serde_json::json;
    match v {
        Val::Num(n) => json!({ "num": n.to_string() }),
        Val::Text(s) => json!({ "text": s }),
        Val::Hex(s) => json!({ "hex": s }),
        Val::Bytes(b) => json!({ "bytes": crate::hex(b) }),
        Val::DateTime(d) => json!({ "datetime": d.to_vec() }),
        Val::Struct(fs) => {
            let mut m = serde_json::Map::new();
            for (n, v) in fs {
                m.insert(n.clone(), val_to_json(v));
            }
            serde_json::Value::Object(m)
        }
        Val::Opt(None) => serde_json::Value::Null,
        Val::Opt(Some(b)) => json!({ "some": val_to_json(b) }),
        Val::List(l) => serde_json::Value::Array(l.iter().map(val_to_json).collect()),
    }
}
