//! C01, C03, C13, C14 (and, through the same engine, C12): the codec monitors.
//!
//! One *base case* is a struct type T, a canonical value V (fixed point of the
//! reference codec) and B = enc_ref(V).  The real decoder/encoder of T is run
//! on B and judged against V (C03: layout, both directions; C01: round trip).
//! C13 and C14 mutate the reference chunk tree of B and judge the real decoder
//! against the reference decoder applied to the very same bytes.

use crate::codec::{CanonFail, Codec, Group, Node, Payload, RefErr, Reject, StructNode};
use crate::evidence::{sharded, Report};
use crate::gen::{Gen, GenCfg, Presence};
use crate::hex;
use crate::layout::*;
use crate::prng::{fnv, Rng};
use crate::val::{first_diff_field, render_struct, val_to_json, Val};
use serde_json::json;
use std::collections::BTreeSet;

use std::cell::RefCell;

#[derive(Clone, Debug, PartialEq)]
pub enum Outcome {
    Ok {
        debug: String,
        /// length of the remainder handed back
        rest: usize,
        /// re-serialisation of the decoded value
        reenc: Vec<u8>,
        /// decode(reenc) == value (type's own PartialEq) and no remainder
        re_eq: bool,
        re_rest: usize,
        re_err: Option<String>,
        /// Debug of decode(reenc)
        re_debug: String,
    },
    Err(String),
    Panic(String),
}


// ---------------------------------------------------------------- panic capture

thread_local! {
    static LAST_PANIC: RefCell<Option<String>> = RefCell::new(None);
}

/// Install a panic hook that records `file:line: message` per thread and
/// prints nothing (panics of the code under test are *observations*).
pub fn install_panic_hook() {
    let default = std::panic::take_hook();
    std::panic::set_hook(Box::new(move |info| {
        let loc = info.location().map(|l| format!("{}:{}", l.file(), l.line())).unwrap_or_else(|| "?".into());
        let msg = if let Some(s) = info.payload().downcast_ref::<&str>() {
            s.to_string()
        } else if let Some(s) = info.payload().downcast_ref::<String>() {
            s.clone()
        } else {
            "<non-string panic>".to_string()
        };
        let harness = std::env::var("VERIF_SHOW_PANICS").is_ok() || (!loc.contains("zvt") && !loc.contains("/rustc/") && !loc.contains("chrono") && !loc.contains("hex") && !loc.contains("yore"));
        LAST_PANIC.with(|p| *p.borrow_mut() = Some(format!("{loc}: {msg}")));
        if harness {
            default(info);
        }
    }));
}

/// A logger that accepts every record and *formats* it into nothing.  `log` macros evaluate their arguments
/// only when a logger wants the record; the code under test must be observed with its logging statements live
/// (a slice or an unwrap inside a `debug!` argument is code like any other).
struct FormatSink;
struct Null;
impl std::fmt::Write for Null {
    fn write_str(&mut self, _: &str) -> std::fmt::Result {
        Ok(())
    }
}
impl log::Log for FormatSink {
    fn enabled(&self, _: &log::Metadata) -> bool {
        true
    }
    fn log(&self, record: &log::Record) {
        // the argument *expressions* of the log statement have been evaluated by now (that is what matters most);
        // formatting them as well is done for every 32nd record per thread: the library hex-dumps the rest of the
        // buffer per tag, which would make every decode quadratic.
        use std::fmt::Write;
        let n = LOG_COUNT.with(|c| {
            let v = c.get().wrapping_add(1);
            c.set(v);
            v
        });
        if n % 32 == 0 {
            let _ = write!(Null, "{}", record.args());
        }
    }
    fn flush(&self) {}
}
static SINK: FormatSink = FormatSink;
thread_local! {
    static LOG_COUNT: std::cell::Cell<u64> = const { std::cell::Cell::new(0) };
}

pub fn install_log_sink() {
    if log::set_logger(&SINK).is_ok() {
        log::set_max_level(log::LevelFilter::Trace);
    }
}

pub fn clear_last_panic() {
    LAST_PANIC.with(|p| *p.borrow_mut() = None);
}

pub fn take_last_panic() -> Option<String> {
    LAST_PANIC.with(|p| p.borrow_mut().take())
}

/// Run `f`, converting a panic into `Err(file:line: message)`.
pub fn guarded<T>(f: impl FnOnce() -> T) -> Result<T, String> {
    LAST_PANIC.with(|p| *p.borrow_mut() = None);
    match std::panic::catch_unwind(std::panic::AssertUnwindSafe(f)) {
        Ok(v) => Ok(v),
        Err(_) => Err(LAST_PANIC.with(|p| p.borrow_mut().take()).unwrap_or_else(|| "?: panic".into())),
    }
}

/// Normalise a panic location: keep the path from the crate directory on, strip numbers from the message.
pub fn panic_signature(p: &str) -> String {
    let (loc, msg) = p.split_once(": ").unwrap_or((p, ""));
    let file = loc.rsplit_once(':').map(|x| x.0).unwrap_or(loc);
    let short = ["zvt_builder/", "zvt_derive/", "zvt_feig_terminal/", "zvt/"]
        .iter()
        .filter_map(|k| file.find(k).map(|i| &file[i..]))
        .next()
        .unwrap_or_else(|| file.rsplit('/').next().unwrap_or(file));
    format!("panic:{}:{}", short, crate::evidence::strip_numbers(msg))
}

/// Result of constructing the typed value itself (not via the decoder), serialising and deserialising it.
#[derive(Clone, Debug, PartialEq)]
pub struct Built {
    /// Debug of the constructed typed value
    pub debug: String,
    /// its serialisation
    pub enc: Vec<u8>,
    /// decode(enc): (equal to the constructed value by the type's own PartialEq, bytes left, Debug) or the error
    pub dec: Result<(bool, usize, String), String>,
}

pub trait Sut {
    /// construct the typed value V itself, serialise, deserialise; None when the type cannot be constructed from outside
    fn build(&mut self, _key: &str, _v: &Val) -> Option<Result<Built, String>> {
        None
    }
    /// decode `bytes` and compare the typed result with the typed value constructed from `want`, using the
    /// type's own PartialEq; None when the type cannot be constructed from outside (then Debug is compared)
    fn decode_eq(&mut self, _key: &str, _bytes: &[u8], _want: &Val) -> Option<bool> {
        None
    }
    /// decode, re-encode, decode again
    fn run(&mut self, key: &str, bytes: &[u8]) -> Outcome;
    /// decode only
    fn decode(&mut self, key: &str, bytes: &[u8]) -> Outcome;
}

#[derive(Clone, Copy, PartialEq, Debug)]
pub enum Prop {
    C01,
    C03,
    C13,
    C14,
    /// everything (C12: generated structs)
    All,
}

impl Prop {
    fn has(self, p: Prop) -> bool {
        self == Prop::All || self == p
    }
}

pub struct Engine<'a> {
    pub schema: &'a Schema,
    pub codec: Codec<'a>,
    pub gen: Gen<'a>,
    pub prop: Prop,
    /// tags known anywhere below each root type (superset of "known on the path")
    pub reject_counts: std::cell::RefCell<std::collections::BTreeMap<String, u64>>,
}

pub fn short(s: &str) -> String {
    let mut t: String = s.chars().take(300).collect();
    if s.len() > t.len() {
        t.push('…');
    }
    t
}

fn sig_err(e: &str) -> String {
    crate::evidence::strip_numbers(e)
}

/// All tags declared by `def` and every struct reachable from it (plus the date-time inner tags).
pub fn reachable_tags(schema: &Schema, def: &StructDef, out: &mut BTreeSet<u16>) {
    for f in &def.fields {
        if let Some(t) = f.tag {
            out.insert(t);
        }
        match &f.enc {
            Enc::Struct(k) => reachable_tags(schema, schema.get(k), out),
            Enc::DateTime => {
                out.insert(0x1f0e);
                out.insert(0x1f0f);
            }
            _ => {}
        }
    }
}

#[derive(Clone, Debug)]
struct NodeRef {
    path: Vec<String>,
    key: String,
    /// inside an element of a repeated field or a positional optional: errors are absorbed by "until it fails"
    weak: bool,
    ngroups: usize,
}

fn walk(schema: &Schema, s: &StructNode, path: &mut Vec<String>, weak: bool, out: &mut Vec<NodeRef>) {
    out.push(NodeRef { path: path.clone(), key: s.key.clone(), weak, ngroups: s.groups.len() });
    let def = schema.get(&s.key);
    for (i, n) in s.positional.iter().enumerate() {
        if let Payload::Struct(c) = &n.payload {
            let f = def.fields.iter().find(|f| f.name == n.field).unwrap();
            path.push(format!("p{i}"));
            walk(schema, c, path, weak || f.card != Card::One, out);
            path.pop();
        }
    }
    for (gi, g) in s.groups.iter().enumerate() {
        for (ei, n) in g.elems.iter().enumerate() {
            if let Payload::Struct(c) = &n.payload {
                path.push(format!("g{gi}.{ei}"));
                walk(schema, c, path, weak || g.repeated, out);
                path.pop();
            }
        }
    }
}

fn count_nodes(n: &Node) -> usize {
    1 + match &n.payload {
        Payload::Struct(s) => s.positional.iter().map(count_nodes).sum::<usize>() + s.groups.iter().flat_map(|g| g.elems.iter()).map(count_nodes).sum::<usize>(),
        Payload::Leaf(_) => 0,
    }
}

/// Apply `f` to the `idx`-th node of the tree in depth-first order.
fn with_node_mut(n: &mut Node, idx: &mut usize, f: &mut dyn FnMut(&mut Node)) -> bool {
    if *idx == 0 {
        f(n);
        return true;
    }
    *idx -= 1;
    if let Payload::Struct(s) = &mut n.payload {
        for c in s.positional.iter_mut() {
            if with_node_mut(c, idx, f) {
                return true;
            }
        }
        for g in s.groups.iter_mut() {
            for c in g.elems.iter_mut() {
                if with_node_mut(c, idx, f) {
                    return true;
                }
            }
        }
    }
    false
}

fn foreign_elem(rng: &mut Rng, known: &BTreeSet<u16>) -> (u16, Node) {
    let tag = loop {
        let t: u16 = match rng.below(4) {
            0 => rng.range(1, 0xfe) as u16,
            1 => 0x1f00 | rng.below(256) as u16,
            2 => 0xff00 | rng.below(256) as u16,
            // the ends of the one-byte range (00 is the "filler" of some TLV dialects)
            _ => *rng.pick(&[0x00u16, 0x00, 0x01, 0x7f, 0x80, 0xfe]),
        };
        if t != 0x1f && t != 0xff && !known.contains(&t) {
            break t;
        }
    };
    let n = rng.below(6) as usize;
    // a body of zero bytes re-synchronises a decoder that skips instead of stopping
    let body = if rng.chance(1, 3) { vec![0u8; n] } else { rng.bytes(n) };
    (
        tag,
        Node {
            field: format!("foreign_{tag:x}"),
            tag: crate::codec::tag_bytes(tag).unwrap(),
            len: if rng.chance(2, 3) { Len::Ber } else { Len::None },
            apdu: false,
            payload: Payload::Leaf(body),
            prefix_override: None,
        },
    )
}

impl<'a> Engine<'a> {
    pub fn new(schema: &'a Schema, prop: Prop, cfg: GenCfg) -> Self {
        Engine { schema, codec: Codec::new(schema), gen: Gen::new(schema, cfg), prop, reject_counts: Default::default() }
    }

    /// Is the value the real decoder produced for `bytes` the reference value `want`?  Judged with the type's
    /// own PartialEq against the typed value constructed from `want`; for the types that cannot be constructed
    /// from outside the crate, by comparing derived Debug with the rendering of `want`.
    fn value_matches(&self, sut: &mut dyn Sut, def: &StructDef, bytes: &[u8], debug: &str, want: &Val) -> bool {
        match sut.decode_eq(&def.key, bytes, want) {
            Some(eq) => eq,
            None => debug == render_struct(self.schema, def, want),
        }
    }

    fn count_reject(&self, r: &mut Report, fail: &CanonFail) {
        let class = match fail {
            CanonFail::Reject(Reject::TooLong) => "E4_too_long_for_field_or_prefix",
            CanonFail::Reject(Reject::Alphabet) => "E6_outside_alphabet",
            CanonFail::Reject(Reject::Tag) => "tag_not_representable",
            CanonFail::Reject(Reject::Shape) => "harness_shape_error",
            CanonFail::NotFixedPoint => "E1_E2_E3_E5_E7_not_a_fixed_point",
            CanonFail::DecodeErr(_) => "E7_reference_cannot_delimit",
        };
        r.count(&format!("rejected.{class}"), 1);
    }

    /// Generate one canonical value (or None after `tries` rejected candidates).
    /// Text fields (CP437, variable length) of a value: (path of field indices, longest text the length style carries).
    fn text_slots(&self, def: &StructDef, v: &Val, path: &mut Vec<usize>, out: &mut Vec<(Vec<usize>, usize)>) {
        let Val::Struct(fs) = v else { return };
        for (i, (f, (_, fv))) in def.fields.iter().zip(fs.iter()).enumerate() {
            if f.card == Card::Many {
                continue;
            }
            let inner = match fv {
                Val::Opt(Some(b)) => &**b,
                Val::Opt(None) => continue,
                o => o,
            };
            path.push(i);
            match (&f.enc, inner) {
                (Enc::Cp437, Val::Text(_)) => {
                    let max = match f.len {
                        Len::Ll => 99,
                        Len::Lll => 999,
                        Len::Ber | Len::None => 4000,
                        _ => 0,
                    };
                    if max > 0 {
                        out.push((path.clone(), max));
                    }
                }
                (Enc::Struct(k), Val::Struct(_)) => self.text_slots(self.schema.get(k), inner, path, out),
                _ => {}
            }
            path.pop();
        }
    }

    /// The same value with one of its text fields resized so that the APDU body is exactly `target` bytes long.
    fn stretch_body(&self, rng: &mut Rng, def: &StructDef, v: &Val, target: usize) -> Option<(Val, Vec<u8>)> {
        let mut slots = vec![];
        self.text_slots(def, v, &mut vec![], &mut slots);
        if slots.is_empty() {
            return None;
        }
        let (path, max) = rng.pick(&slots).clone();
        let mut v = v.clone();
        fn slot<'v>(v: &'v mut Val, path: &[usize]) -> Option<&'v mut Val> {
            let mut cur = v;
            for i in path {
                let Val::Struct(fs) = cur else { return None };
                cur = &mut fs.get_mut(*i)?.1;
                if let Val::Opt(Some(b)) = cur {
                    cur = &mut **b;
                }
            }
            Some(cur)
        }
        for _ in 0..5 {
            let b = self.codec.canonical(def, &v).ok()?;
            let body = if b[2] == 0xff { b.len() - 5 } else { b.len() - 3 };
            if body == target {
                return Some((v, b));
            }
            let Val::Text(t) = slot(&mut v, &path)? else { return None };
            let cur = t.chars().count() as isize;
            let want = cur + target as isize - body as isize;
            if want < 0 || want as usize > max {
                return None;
            }
            *t = (0..want as usize).map(|j| (b'A' + (j % 26) as u8) as char).collect();
        }
        None
    }

    pub fn canonical_value(&self, r: &mut Report, rng: &mut Rng, def: &StructDef, presence: Presence, tries: usize) -> Option<(Val, Vec<u8>, Node)> {
        for _ in 0..tries {
            let v = self.gen.gen_struct(rng, def, presence, 0);
            match self.codec.canonical(def, &v) {
                Ok(b) => {
                    // now and then a packet is resized (one of its text fields) so that its APDU body sits exactly on the
                    // short / extended length switch
                    if def.cf.is_some() && presence == Presence::Random && rng.chance(1, 4) {
                        let target = *rng.pick(&[254usize, 255, 255, 255, 256]);
                        if let Some((v2, b2)) = self.stretch_body(rng, def, &v, target) {
                            if let Ok(tree) = self.codec.enc_top(def, &v2) {
                                r.count("bodies_stretched_to_the_apdu_length_switch", 1);
                                return Some((v2, b2, tree));
                            }
                        }
                    }
                    let tree = self.codec.enc_top(def, &v).unwrap();
                    return Some((v, b, tree));
                }
                Err(f) => self.count_reject(r, &f),
            }
        }
        None
    }

    fn record_coverage(&self, r: &mut Report, def: &StructDef, v: &Val, b: &[u8]) {
        // presence matrix
        if let Val::Struct(fs) = v {
            for (f, (_, fv)) in def.fields.iter().zip(fs.iter()) {
                let state = match (f.card, fv) {
                    (Card::One, _) => continue,
                    (Card::Opt, Val::Opt(None)) => "absent",
                    (Card::Opt, _) => "present",
                    (Card::Many, Val::List(l)) => match l.len() {
                        0 => "absent",
                        1 => "present",
                        n => {
                            r.note("seen_many", &format!("{}.{}", def.key, f.name));
                            if n >= 256 {
                                r.note("lists_of_256_and_more_elements", &format!("{}.{}", def.key, f.name));
                            }
                            "present"
                        }
                    },
                    _ => continue,
                };
                r.note(&format!("seen_{state}"), &format!("{}.{}", def.key, f.name));
            }
        }
        if def.cf.is_some() {
            let form = if b[2] == 0xff { "apdu_extended" } else { "apdu_short" };
            r.count(&format!("prefix_forms.{form}"), 1);
            let body = if b[2] == 0xff { b.len() - 5 } else { b.len() - 3 };
            if (253..=257).contains(&body) {
                r.note("apdu_switch_points_crossed", &body.to_string());
            }
        }
    }

    /// C03 + C01 on one canonical case.  Returns false if the case could not be judged further.
    pub fn base_case(&self, sut: &mut dyn Sut, r: &mut Report, def: &StructDef, v: &Val, b: &[u8], focus: Option<&str>) {
        let expected = render_struct(self.schema, def, v);
        let nontrivial = b.len() > if def.cf.is_some() { 3 } else { 0 };
        r.case(fnv(b) ^ fnv(def.key.as_bytes()), nontrivial);
        self.record_coverage(r, def, v, b);
        let case = || json!({"kind": "codec", "type": def.key, "value": val_to_json(v), "bytes": hex(b), "expected_debug": short(&expected)});
        // The typed value V itself (where the type can be constructed from outside the crate).
        match sut.build(&def.key, v) {
            None => r.count("cases_without_typed_construction", 1),
            Some(Err(p)) => {
                r.violation(
                    &format!("{}.{}: serialise/deserialise of the typed value {}", def.key, focus.unwrap_or("*"), panic_signature(&p)),
                    &format!("constructing, serialising or deserialising the typed value panicked: {p}"),
                    case(),
                );
            }
            Some(Ok(built)) => {
                r.count("cases_with_typed_construction", 1);
                if built.debug != expected {
                    // a custom Debug implementation or another field order: rendering is only used for messages
                    r.count("typed_values_rendering_differently_from_the_reference", 1);
                }
                {
                    if self.prop.has(Prop::C03) && built.enc != b {
                        let f = match self.codec.decode(def, &built.enc) {
                            Ok((v2, _)) => first_diff_field(&expected, &render_struct(self.schema, def, &v2)),
                            Err(_) => "?".into(),
                        };
                        let f = if f == "?" { focus.unwrap_or("*").to_string() } else { f };
                        r.violation(
                            &format!("{}.{}: encoder disagrees with the layout table", def.key, f),
                            &format!("the typed value serialises to {} but the layout table says {}", short(&hex(&built.enc)), short(&hex(b))),
                            case(),
                        );
                    }
                    if self.prop.has(Prop::C01) {
                        match &built.dec {
                            Err(e) => r.violation(
                                &format!("{}.{}: own serialisation is not decodable ({})", def.key, focus.unwrap_or("*"), sig_err(e)),
                                &format!("V.serialize() = {} and deserialize of that = Err({e})", short(&hex(&built.enc))),
                                case(),
                            ),
                            Ok((eq, rest, dbg2)) => {
                                if !*eq || *rest != 0 {
                                    let f = first_diff_field(&expected, dbg2);
                                    let f = if f == "?" { focus.unwrap_or("*").to_string() } else { f };
                                    r.violation(
                                        &format!("{}.{}: value changes on serialise -> deserialise", def.key, f),
                                        &format!("V = {} ; deserialize(V.serialize()) = {} ({} bytes left)", short(&expected), short(dbg2), rest),
                                        case(),
                                    );
                                }
                            }
                        }
                    }
                }
            }
        }
        let out = sut.run(&def.key, b);
        if r.wants_sample() && nontrivial && b.len() < 120 {
            r.sample(json!({"type": def.key, "bytes": hex(b), "decoded": short(&expected)}));
        }
        let field_or_focus = |f: String| if f == "?" { focus.unwrap_or("*").to_string() } else { f };
        match out {
            Outcome::Panic(p) => {
                if self.prop.has(Prop::C03) || self.prop.has(Prop::C01) {
                    r.violation(
                        &format!("{}.{}: decode of the reference encoding {}", def.key, focus.unwrap_or("*"), panic_signature(&p)),
                        &format!("{}::zvt_deserialize panicked on the reference encoding of a canonical value: {p}", def.key),
                        case(),
                    );
                }
            }
            Outcome::Err(e) => {
                if self.prop.has(Prop::C03) {
                    r.violation(
                        &format!("{}.{}: decoder rejects the reference encoding ({})", def.key, focus.unwrap_or("*"), sig_err(&e)),
                        &format!("{}::zvt_deserialize = Err({e}) on bytes assembled from the layout table", def.key),
                        case(),
                    );
                }
            }
            Outcome::Ok { debug, rest, reenc, re_eq, re_rest, re_err, re_debug } => {
                if self.prop.has(Prop::C03) {
                    if !self.value_matches(sut, def, b, &debug, v) {
                        let f = field_or_focus(first_diff_field(&expected, &debug));
                        r.violation(
                            &format!("{}.{}: decoder disagrees with the layout table", def.key, f),
                            &format!("decoded {} but the layout table says {}", short(&debug), short(&expected)),
                            case(),
                        );
                    } else if rest != 0 {
                        r.violation(&format!("{}.*: decoder leaves bytes of the reference encoding unread", def.key), &format!("{rest} bytes left over"), case());
                    }
                    if reenc != b {
                        // attribute: decode the re-encoding with the reference and find the first differing field
                        let f = match self.codec.decode(def, &reenc) {
                            Ok((v2, _)) => field_or_focus(first_diff_field(&expected, &render_struct(self.schema, def, &v2))),
                            Err(_) => focus.unwrap_or("*").to_string(),
                        };
                        r.violation(
                            &format!("{}.{}: encoder disagrees with the layout table", def.key, f),
                            &format!("re-encoded to {} but the layout table says {}", short(&hex(&reenc)), short(&hex(b))),
                            case(),
                        );
                    }
                }
                if self.prop.has(Prop::C01) {
                    // x = decode(B); x' = decode(encode(x)); x' == x, nothing left; and x' still shows V
                    if let Some(e) = re_err {
                        r.violation(
                            &format!("{}.{}: own serialisation is not decodable ({})", def.key, focus.unwrap_or("*"), sig_err(&e)),
                            &format!("decode(encode(x)) = Err({e}) for x = {}", short(&debug)),
                            case(),
                        );
                    } else if !re_eq || re_rest != 0 {
                        let f = field_or_focus(first_diff_field(&debug, &re_debug));
                        r.violation(
                            &format!("{}.{}: value changes on serialise -> deserialise", def.key, f),
                            &format!("x = {} but decode(encode(x)) = {} ({} bytes left)", short(&debug), short(&re_debug), re_rest),
                            case(),
                        );
                    } else if !self.value_matches(sut, def, &reenc, &re_debug, v) {
                        let f = field_or_focus(first_diff_field(&expected, &re_debug));
                        r.violation(&format!("{}.{}: value changes on serialise -> deserialise", def.key, f), &format!("round trip yields {}", short(&re_debug)), case());
                    }
                }
            }
        }
    }

    /// Judge the real decoder on mutated bytes against the reference decoder on the same bytes.
    /// `kind`: "perm" | "dup" | "drop" | "splice" | "suffix" | "sibling"
    #[allow(clippy::too_many_arguments)]
    fn differential(&self, sut: &mut dyn Sut, r: &mut Report, prop_name: &str, def: &StructDef, v: &Val, bytes: &[u8], kind: &str, weak: bool, detail: serde_json::Value) {
        let reference = self.codec.decode(def, bytes);
        let key = &def.key;
        let case = || json!({"kind": "codec-mutation", "type": key, "mutation": kind, "detail": detail, "value": val_to_json(v), "bytes": hex(bytes)});
        let out = sut.decode(key, bytes);
        let h = fnv(bytes) ^ fnv(key.as_bytes()) ^ fnv(kind.as_bytes());
        if r.wants_sample() && bytes.len() < 100 && kind != "suffix" {
            r.sample(json!({"type": key, "mutation": kind, "detail": detail, "bytes": hex(bytes), "reference_decoder": format!("{:?}", reference.as_ref().map(|(v, rest)| (short(&render_struct(self.schema, def, v)), rest.len()))), "real_decoder": short(&format!("{out:?}"))}));
        }
        if let Outcome::Panic(p) = &out {
            r.case(h, true);
            r.violation(&format!("{prop_name} {key}: {kind} {}", panic_signature(p)), &format!("decoder panicked on a {kind}-mutated packet: {p}"), case());
            return;
        }
        match (kind, &reference) {
            ("perm", Ok((v2, rest))) => {
                if v2 != v || !rest.is_empty() {
                    r.evaluations += 1;
                    r.count("ambiguous_permutations_not_claimed", 1);
                    return;
                }
                r.case(h, true);
                let expected = render_struct(self.schema, def, v);
                match out {
                    Outcome::Ok { debug, rest, .. } if rest == 0 && self.value_matches(sut, def, bytes, &debug, v) => {}
                    Outcome::Ok { debug, rest, .. } => {
                        let f = first_diff_field(&expected, &debug);
                        r.violation(&format!("{prop_name} {key}.{f}: permuted tagged fields decode differently"), &format!("got {} ({rest} left), expected {}", short(&debug), short(&expected)), case())
                    }
                    Outcome::Err(e) => r.violation(&format!("{prop_name} {key}: permuted tagged fields rejected ({})", sig_err(&e)), &format!("Err({e}) for a permutation of the tagged groups"), case()),
                    Outcome::Panic(_) => unreachable!(),
                }
            }
            ("dup", Err(RefErr::Duplicate(t))) => {
                r.case(h, true);
                let want = format!("DuplicateTag(Tag({t}))");
                match out {
                    Outcome::Err(e) if e == want => r.count("duplicates_reported", 1),
                    Outcome::Err(e) => {
                        if weak {
                            r.count("weak_scope_other_error", 1);
                        } else {
                            r.violation(&format!("{prop_name} {key}: duplicate tag reported as {}", sig_err(&e)), &format!("expected {want}, got Err({e})"), case())
                        }
                    }
                    Outcome::Ok { debug, .. } => {
                        if weak {
                            r.count("weak_scope_truncated", 1);
                        } else {
                            r.violation(&format!("{prop_name} {key}: duplicate tag accepted"), &format!("expected {want}, got Ok({})", short(&debug)), case())
                        }
                    }
                    Outcome::Panic(_) => unreachable!(),
                }
            }
            ("drop", Err(RefErr::Missing(ts))) => {
                r.case(h, true);
                let want = format!("MissingRequiredTags([{}])", ts.iter().map(|t| format!("Tag({t})")).collect::<Vec<_>>().join(", "));
                match out {
                    Outcome::Err(e) if e == want => r.count("missing_reported", 1),
                    Outcome::Err(e) => {
                        if weak {
                            r.count("weak_scope_other_error", 1);
                        } else {
                            r.violation(&format!("{prop_name} {key}: missing mandatory tags reported as {}", sig_err(&e)), &format!("expected {want}, got Err({e})"), case())
                        }
                    }
                    Outcome::Ok { debug, .. } => {
                        if weak {
                            r.count("weak_scope_truncated", 1);
                        } else {
                            r.violation(&format!("{prop_name} {key}: missing mandatory tags accepted"), &format!("expected {want}, got Ok({})", short(&debug)), case())
                        }
                    }
                    Outcome::Panic(_) => unreachable!(),
                }
            }
            ("splice", reference) => {
                // either rejects the packet, or yields exactly the value of the bytes preceding the unknown tag
                match (reference, out) {
                    (_, Outcome::Err(_)) => {
                        r.case(h, true);
                        r.count("splice_rejected", 1);
                    }
                    (Ok((v2, _)), Outcome::Ok { debug, .. }) => {
                        r.case(h, true);
                        let expected = render_struct(self.schema, def, v2);
                        if !self.value_matches(sut, def, bytes, &debug, v2) {
                            let f = first_diff_field(&expected, &debug);
                            r.violation(&format!("{prop_name} {key}.{f}: unknown tag disturbs the decoded value"), &format!("got {}, the bytes preceding the unknown tag say {}", short(&debug), short(&expected)), case());
                        } else {
                            r.count("splice_truncated_ok", 1);
                        }
                    }
                    (Err(e), Outcome::Ok { debug, .. }) => {
                        if weak || !matches!(e, RefErr::Missing(_)) {
                            r.evaluations += 1;
                            r.count("splice_unclaimed", 1);
                        } else {
                            r.case(h, true);
                            r.violation(&format!("{prop_name} {key}: packet with an unknown tag before mandatory fields accepted"), &format!("reference: {e:?}, got Ok({})", short(&debug)), case());
                        }
                    }
                    (_, Outcome::Panic(_)) => unreachable!(),
                }
            }
            ("suffix" | "sibling", Ok((v2, rest))) => {
                r.case(h, true);
                let expected = render_struct(self.schema, def, v2);
                match out {
                    Outcome::Ok { debug, rest: got_rest, .. } if got_rest == rest.len() && self.value_matches(sut, def, bytes, &debug, v2) => {}
                    Outcome::Ok { debug, rest: got_rest, .. } => {
                        let f = if got_rest == rest.len() || debug != expected { first_diff_field(&expected, &debug) } else { "remainder".into() };
                        r.violation(
                            &format!("{prop_name} {key}.{f}: bytes outside the announced length influence the result ({kind})"),
                            &format!("got {} with {got_rest} bytes left; expected {} with {} bytes left", short(&debug), short(&expected), rest.len()),
                            case(),
                        )
                    }
                    Outcome::Err(e) => r.violation(&format!("{prop_name} {key}: {kind} bytes make the decoder fail ({})", sig_err(&e)), &format!("Err({e}); expected {} with {} bytes left", short(&expected), rest.len()), case()),
                    Outcome::Panic(_) => unreachable!(),
                }
            }
            _ => {
                r.evaluations += 1;
                r.count(&format!("{kind}_unclaimed_reference_outcome"), 1);
            }
        }
    }

    /// C13: permutations, duplicates, removals, foreign tags at every struct node.
    #[allow(clippy::too_many_arguments)]
    pub fn c13_cases(&self, sut: &mut dyn Sut, r: &mut Report, rng: &mut Rng, prop_name: &str, def: &StructDef, v: &Val, tree: &Node, max_perms: usize) {
        let Payload::Struct(root) = &tree.payload else { return };
        let mut nodes = vec![];
        walk(self.schema, root, &mut vec![], false, &mut nodes);
        let mut known = BTreeSet::new();
        reachable_tags(self.schema, def, &mut known);
        for nr in nodes.iter().filter(|n| n.ngroups > 0 || self.schema.get(&n.key).fields.iter().any(|f| f.tag.is_some())) {
            let n = nr.ngroups;
            let apply = |f: &mut dyn FnMut(&mut StructNode)| -> Option<Vec<u8>> {
                let mut t = tree.clone();
                f(t.struct_at_mut(&nr.path)?);
                t.bytes()
            };
            let where_ = json!({"node": nr.key, "path": nr.path, "weak_scope": nr.weak});
            // (a) permutations
            if n >= 2 {
                let perms: Vec<Vec<usize>> = if n <= 6 && factorial(n) <= max_perms {
                    r.note("nodes_with_all_permutations", &if nr.key.starts_with('G') { format!("generated struct with {n} tagged groups") } else { format!("{}:{}", nr.key, n) });
                    all_permutations(n)
                } else {
                    (0..max_perms.min(200))
                        .map(|_| {
                            let mut p: Vec<usize> = (0..n).collect();
                            rng.shuffle(&mut p);
                            p
                        })
                        .collect()
                };
                for p in perms {
                    if p.iter().enumerate().all(|(i, x)| i == *x) {
                        continue;
                    }
                    if let Some(b) = apply(&mut |s: &mut StructNode| {
                        let old = s.groups.clone();
                        s.groups = p.iter().map(|i| old[*i].clone()).collect();
                    }) {
                        self.differential(sut, r, prop_name, def, v, &b, "perm", nr.weak, json!({"at": where_, "order": p}));
                    }
                }
            }
            // (b) duplicates of a non-repeated group at every position
            for gi in 0..n {
                for pos in 0..=n {
                    if pos == gi {
                        continue; // directly before itself: same as pos gi+1 for a single-element group
                    }
                    let mut skip = false;
                    if let Some(b) = apply(&mut |s: &mut StructNode| {
                        if s.groups[gi].repeated {
                            skip = true;
                            return;
                        }
                        let g = s.groups[gi].clone();
                        s.groups.insert(pos, g);
                    }) {
                        if !skip {
                            self.differential(sut, r, prop_name, def, v, &b, "dup", nr.weak, json!({"at": where_, "group": gi, "copy_at": pos}));
                        }
                    }
                }
            }
            // (c) removal of every non-empty subset of the mandatory groups
            let mandatory: Vec<usize> = {
                let mut t = tree.clone();
                t.struct_at_mut(&nr.path).map(|s| s.groups.iter().enumerate().filter(|(_, g)| g.mandatory).map(|(i, _)| i).collect()).unwrap_or_default()
            };
            if !mandatory.is_empty() && mandatory.len() <= 6 {
                for mask in 1u32..(1 << mandatory.len()) {
                    let drop: Vec<usize> = mandatory.iter().enumerate().filter(|(i, _)| mask & (1 << i) != 0).map(|(_, g)| *g).collect();
                    if let Some(b) = apply(&mut |s: &mut StructNode| {
                        let mut i = 0;
                        s.groups.retain(|_| {
                            let keep = !drop.contains(&i);
                            i += 1;
                            keep
                        });
                    }) {
                        self.differential(sut, r, prop_name, def, v, &b, "drop", nr.weak, json!({"at": where_, "dropped_groups": drop}));
                    }
                }
            }
            // (e) a repeated group split by another group (the last element moved behind the following / to the front): either
            //     rejected as a duplicate of that tag, or every element is still there - never a silent loss
            // (only on the shipped types: in generated definitions a moved element can land in front of a rest-of-scope field
            // or change the reading of an E1-ambiguous neighbour, where "another value" is legitimate)
            for gi in (0..n).filter(|_| def.key.contains("::")) {
                let mut info: Option<(u16, usize)> = None;
                if let Some(b) = apply(&mut |s: &mut StructNode| {
                    if s.groups[gi].repeated && s.groups[gi].elems.len() >= 2 && s.groups.len() >= 2 {
                        let tag = s.groups[gi].tag;
                        let last = s.groups[gi].elems.pop().unwrap();
                        let moved = Group { field: s.groups[gi].field.clone(), tag, mandatory: false, repeated: true, elems: vec![last] };
                        let at = if gi + 1 < s.groups.len() { gi + 2 } else { 0 };
                        s.groups.insert(at.min(s.groups.len()), moved);
                        info = Some((tag, at));
                    }
                }) {
                    if let Some((tag, _)) = info {
                        r.case(fnv(&b) ^ fnv(def.key.as_bytes()) ^ 0x5b117, true);
                        r.count("split_runs_of_repeated_groups", 1);
                        if nr.weak {
                            continue;
                        }
                        match sut.decode(&def.key, &b) {
                            Outcome::Err(e) if e.contains("DuplicateTag") => {}
                            Outcome::Err(_) => {}
                            Outcome::Panic(p) => r.violation(&format!("{prop_name} {}: split run of a repeated field {}", def.key, crate::evidence::strip_numbers(&p)), &p, json!({"type": def.key, "bytes": hex(&b), "split_tag": format!("{tag:x}")})),
                            Outcome::Ok { .. } => {
                                if sut.decode_eq(&def.key, &b, v) == Some(false) {
                                    r.violation(
                                        &format!("{prop_name} {}: a repeated field whose elements arrive in two separate runs loses elements silently", def.key),
                                        &format!("tag {tag:x} occurs in two runs separated by another field; the packet is accepted but the decoded value is not the one with all elements"),
                                        json!({"type": def.key, "bytes": hex(&b), "split_tag": format!("{tag:x}"), "value": val_to_json(v)}),
                                    );
                                }
                            }
                        }
                    }
                }
            }
            // (d) a foreign tag at every group position
            for pos in 0..=n {
                for _ in 0..2 {
                    let (tag, elem) = foreign_elem(rng, &known);
                    if let Some(b) = apply(&mut |s: &mut StructNode| {
                        s.groups.insert(pos, Group { field: elem.field.clone(), tag, mandatory: false, repeated: false, elems: vec![elem.clone()] });
                    }) {
                        self.differential(sut, r, prop_name, def, v, &b, "splice", nr.weak, json!({"at": where_, "position": pos, "foreign_tag": format!("{tag:x}")}));
                    }
                }
            }
        }
    }

    /// C14: suffixes behind a packet; attractive bytes behind every nested length-prefixed container.
    #[allow(clippy::too_many_arguments)]
    pub fn c14_cases(&self, sut: &mut dyn Sut, r: &mut Report, rng: &mut Rng, prop_name: &str, def: &StructDef, v: &Val, b: &[u8], tree: &Node, all_single_bytes: bool, other_packets: &[Vec<u8>]) {
        if def.cf.is_some() {
            let mut suffixes: Vec<Vec<u8>> = vec![];
            if all_single_bytes {
                suffixes.extend((0..=255u8).map(|x| vec![x]));
            } else {
                for _ in 0..6 {
                    suffixes.push(vec![rng.byte()]);
                }
                suffixes.push(vec![0x00]);
                suffixes.push(vec![0xff]);
                suffixes.push(vec![0x06]);
            }
            // a valid packet; the packet itself again
            suffixes.push(b.to_vec());
            if !other_packets.is_empty() {
                suffixes.push(rng.pick(other_packets).clone());
            }
            // bytes that continue the last field's encoding
            suffixes.push(vec![0x12, 0x34, 0x56]);
            suffixes.push(b"continued text".to_vec());
            if let Payload::Struct(root) = &tree.payload {
                if let Some(last) = root.groups.last().and_then(|g| g.elems.last()) {
                    if let Some(lb) = last.bytes() {
                        suffixes.push(lb); // another element with the last field's tag
                    }
                }
                for g in &root.groups {
                    if let Some(e) = g.elems.first().and_then(|e| e.bytes()) {
                        if rng.chance(1, 3) {
                            suffixes.push(e);
                        }
                    }
                }
            }
            for _ in 0..4 {
                let n = 1 + rng.below(64) as usize;
                suffixes.push(rng.bytes(n));
            }
            // a few hundred bytes (more than any one field holds): digits-as-text, and random
            if rng.chance(1, 3) {
                suffixes.push(vec![0xf1; 400]);
                suffixes.push((0..1200).map(|i| 0xf0 | (i % 10) as u8).collect());
                suffixes.push(rng.bytes(500));
            }
            // suffixes that take the whole input to and just beyond 64 KiB (sizes are not taken modulo anything), for a
            // sample of the base values
            if rng.chance(1, 6) && b.len() < 65536 {
                for extra in [0usize, 1, 2, 5] {
                    suffixes.push(vec![0x80; 65536 - b.len() + extra]);
                }
                suffixes.push(vec![0x00; 65535]);
                suffixes.push(vec![0x33; 70001]);
            }
            for s in suffixes {
                let mut input = b.to_vec();
                input.extend_from_slice(&s);
                // expectation: same value, remainder == suffix (reference decoder on the same bytes says so too)
                match self.codec.decode(def, &input) {
                    Ok((v2, rest)) if &v2 == v && rest.len() == s.len() => {
                        self.differential(sut, r, prop_name, def, v, &input, "suffix", false, json!({"suffix": hex(&s[..s.len().min(40)]), "suffix_len": s.len()}));
                    }
                    _ => r.inconclusive(&format!("reference codec itself is influenced by a suffix on {} — harness error", def.key)),
                }
            }
            // the library's *own* serialisation of the value, where it differs from the reference encoding (whether it
            // may differ is C03's subject): a packet all the same - whatever is appended comes back untouched and the
            // decoded value is the one decoded without it
            if let Some(Ok(built)) = sut.build(&def.key, v) {
                if built.enc != b && !built.enc.is_empty() {
                    if let Outcome::Ok { debug: d0, rest: 0, .. } = sut.decode(&def.key, &built.enc) {
                        r.count("suffix_cases_on_own_serialisation", 1);
                        for s in [vec![0x00u8], vec![0xff], b"continued text".to_vec(), built.enc.clone(), vec![0x20; 300]] {
                            let mut input = built.enc.clone();
                            input.extend_from_slice(&s);
                            r.case(fnv(&input) ^ fnv(def.key.as_bytes()) ^ 0x5aff, true);
                            let ok = matches!(sut.decode(&def.key, &input), Outcome::Ok { debug, rest, .. } if debug == d0 && rest == s.len());
                            if !ok {
                                r.violation(
                                    &format!("{prop_name} {}: bytes appended to the library's own serialisation influence the result", def.key),
                                    &format!("serialise(v) = {} bytes (head {}); decoded alone it gives the value back with nothing left; with {} bytes appended the result differs or the remainder is not those bytes", built.enc.len(), hex(&built.enc[..built.enc.len().min(8)]), s.len()),
                                    json!({"type": def.key, "value": val_to_json(v), "own_serialisation_head": hex(&built.enc[..built.enc.len().min(24)]), "own_serialisation_len": built.enc.len(), "suffix_len": s.len(), "suffix_head": hex(&s[..s.len().min(16)])}),
                                );
                                break;
                            }
                        }
                    }
                }
            }
        }
        // nested containers: put attractive bytes right behind a length-prefixed element, inside the parent
        let Payload::Struct(root) = &tree.payload else { return };
        let mut nodes = vec![];
        walk(self.schema, root, &mut vec![], false, &mut nodes);
        let mut known = BTreeSet::new();
        reachable_tags(self.schema, def, &mut known);
        for nr in &nodes {
            let n = nr.ngroups;
            for gi in 0..n {
                // the element we protect: last element of group gi, if it is a length-prefixed container or leaf
                let mut t0 = tree.clone();
                let Some(s0) = t0.struct_at_mut(&nr.path) else { continue };
                let elem = s0.groups[gi].elems.last().unwrap().clone();
                if matches!(elem.len, Len::None | Len::Temp) {
                    continue;
                }
                let mut junk: Vec<Vec<Node>> = vec![];
                // (1) a field of the *container's own struct* placed outside its length
                if let Payload::Struct(inner) = &elem.payload {
                    for g in inner.groups.iter().take(3) {
                        junk.push(vec![g.elems[0].clone()]);
                    }
                    let idef = self.schema.get(&inner.key);
                    for f in idef.fields.iter().filter(|f| f.tag.is_some()).take(8) {
                        if rng.chance(1, 2) {
                            let val = self.gen.gen_scalar(rng, f, 3);
                            if let Ok(node) = self.codec.enc_struct(&StructDef { key: "tmp".into(), cf: None, fields: vec![Field { card: Card::One, ..f.clone() }] }, &Val::Struct(vec![(f.name.clone(), val)])) {
                                if let Some(g) = node.groups.first() {
                                    junk.push(g.elems.clone());
                                }
                            }
                        }
                    }
                }
                // (2) a foreign TLV / raw bytes continuing the payload
                junk.push(vec![foreign_elem(rng, &known).1]);
                if let Payload::Leaf(p) = &elem.payload {
                    // more of the same payload (more digits, more text)
                    let more = if p.is_empty() { vec![0x31, 0x32] } else { p[..p.len().min(4)].to_vec() };
                    junk.push(vec![Node { field: "more".into(), tag: vec![], len: Len::None, apdu: false, payload: Payload::Leaf(more), prefix_override: None }]);
                    // a lot more (several times the element's own length), in the element's own alphabet
                    let unit = if p.is_empty() { vec![0xf1] } else { p[..p.len().min(8)].to_vec() };
                    let lots: Vec<u8> = unit.iter().cycle().take(10 * p.len().max(12)).cloned().collect();
                    junk.push(vec![Node { field: "lots".into(), tag: vec![], len: Len::None, apdu: false, payload: Payload::Leaf(lots), prefix_override: None }]);
                }
                // every attractive continuation once more behind one to three zero bytes ("filler" in some TLV dialects)
                let with_filler: Vec<Vec<Node>> = junk
                    .iter()
                    .map(|j| {
                        let mut v = vec![Node { field: "filler".into(), tag: vec![], len: Len::None, apdu: false, payload: Payload::Leaf(vec![0u8; 1 + rng.below(3) as usize]), prefix_override: None }];
                        v.extend(j.iter().cloned());
                        v
                    })
                    .collect();
                junk.extend(with_filler);
                for j in junk {
                    let mut t = tree.clone();
                    let s = t.struct_at_mut(&nr.path).unwrap();
                    // insert the junk as its own pseudo group right behind group gi
                    s.groups.insert(gi + 1, Group { field: "junk".into(), tag: 0, mandatory: false, repeated: false, elems: j.clone() });
                    let Some(bytes) = t.bytes() else { continue };
                    // claimed only where the reference decoder still sees the protected field unchanged
                    let Ok((v2, _)) = self.codec.decode(def, &bytes) else {
                        r.evaluations += 1;
                        r.count("sibling_reference_rejects_not_claimed", 1);
                        continue;
                    };
                    let _ = v2;
                    let jb: Vec<u8> = j.iter().flat_map(|n| n.bytes().unwrap_or_default()).collect();
                    self.differential(sut, r, prop_name, def, v, &bytes, "sibling", nr.weak, json!({"node": nr.key, "path": nr.path, "behind_field": s_field_name(tree, &nr.path, gi), "junk": hex(&jb[..jb.len().min(40)])}));
                }
            }
        }
    }
}

fn s_field_name(tree: &Node, path: &[String], gi: usize) -> String {
    let mut t = tree.clone();
    t.struct_at_mut(path).map(|s| s.groups[gi].field.clone()).unwrap_or_default()
}

fn factorial(n: usize) -> usize {
    (1..=n).product()
}

fn all_permutations(n: usize) -> Vec<Vec<usize>> {
    fn rec(cur: &mut Vec<usize>, used: &mut Vec<bool>, n: usize, out: &mut Vec<Vec<usize>>) {
        if cur.len() == n {
            out.push(cur.clone());
            return;
        }
        for i in 0..n {
            if !used[i] {
                used[i] = true;
                cur.push(i);
                rec(cur, used, n, out);
                cur.pop();
                used[i] = false;
            }
        }
    }
    let mut out = vec![];
    rec(&mut vec![], &mut vec![false; n], n, &mut out);
    out
}

// ---------------------------------------------------------------- drivers

pub struct Plan {
    pub per_type_random: usize,
    pub per_field_alone: usize,
    pub all_present: usize,
    pub mutation_bases: usize,
    pub max_perms: usize,
    pub big: bool,
}

/// Run the engine over a set of struct types with the given SUT factory.
pub fn run_types(threads_max: usize, seed: u64, report: &mut Report, schema: &Schema, keys: &[String], prop: Prop, prop_name: &str, plan: &Plan, make_sut: &(dyn Fn() -> Box<dyn Sut> + Sync)) {
    let threads = threads_max.min(keys.len().max(1));
    sharded(report, threads, |shard, r| {
        let mut sut = make_sut();
        let engine = Engine::new(schema, prop, GenCfg { big: plan.big, stray_pct: 3 });
        let mut other_packets: Vec<Vec<u8>> = vec![];
        for (ti, key) in keys.iter().enumerate() {
            if ti % threads != shard {
                continue;
            }
            let def = schema.get(key);
            let mut rng = Rng::derive(seed, fnv(key.as_bytes()));
            let nopt = Gen::optional_fields(def).len();
            let mut schedule: Vec<(Presence, Option<String>)> = vec![(Presence::AllAbsent, None)];
            for k in 0..nopt {
                let fname = def.fields[Gen::optional_fields(def)[k]].name.clone();
                for _ in 0..plan.per_field_alone {
                    schedule.push((Presence::Only(k), Some(fname.clone())));
                }
            }
            for _ in 0..plan.all_present {
                schedule.push((Presence::AllPresent, None));
            }
            for _ in 0..plan.per_type_random {
                schedule.push((Presence::Random, None));
            }
            let mut accepted = 0u64;
            let mut all_absent_canonical = false;
            let mut mutation_bases = 0usize;
            for (presence, focus) in schedule {
                let Some((v, b, tree)) = engine.canonical_value(r, &mut rng, def, presence, 12) else {
                    continue;
                };
                accepted += 1;
                if presence == Presence::AllAbsent {
                    all_absent_canonical = true;
                }
                if other_packets.len() < 32 && def.cf.is_some() {
                    other_packets.push(b.clone());
                }
                if prop.has(Prop::C01) || prop.has(Prop::C03) {
                    // interference: a few hostile decodes on the same thread between the cases, so that state a failed
                    // decode may leave behind (caches, thread-locals, counters) meets the next valid value
                    if rng.chance(1, 3) && !b.is_empty() {
                        for _ in 0..1 + rng.below(3) {
                            let mut bad = b.clone();
                            match rng.below(4) {
                                0 => {
                                    let cut = rng.below(bad.len() as u64) as usize;
                                    bad.truncate(cut);
                                }
                                1 => {
                                    let i = rng.below(bad.len() as u64) as usize;
                                    bad[i] = rng.byte();
                                }
                                2 => {
                                    let i = rng.below(bad.len() as u64) as usize;
                                    let tail = bad[i..].to_vec();
                                    bad.extend(tail);
                                }
                                _ => {
                                    let i = rng.below(bad.len() as u64) as usize;
                                    bad[i] = 0x99;
                                    bad.push(0x99);
                                }
                            }
                            // half of the time: a failure deep inside, all enclosing lengths consistent (one inner element
                            // announces more than it has, or one group occurs twice), so that the decoder has already
                            // accepted earlier fields when it gives up
                            if rng.chance(1, 2) {
                                let mut t = tree.clone();
                                let total = count_nodes(&t);
                                if total > 1 {
                                    let mut idx = 1 + rng.below(total as u64 - 1) as usize;
                                    let k = 1 + rng.below(9) as usize;
                                    let dup = rng.chance(1, 3);
                                    with_node_mut(&mut t, &mut idx, &mut |n: &mut Node| {
                                        if dup {
                                            if let Payload::Struct(s) = &mut n.payload {
                                                if let Some(g) = s.groups.last().cloned() {
                                                    s.groups.push(g);
                                                    return;
                                                }
                                            }
                                        }
                                        let plen = match &n.payload {
                                            Payload::Leaf(b) => b.len(),
                                            Payload::Struct(s) => s.bytes().map(|b| b.len()).unwrap_or(0),
                                        };
                                        n.prefix_override = match n.len {
                                            Len::Ber => crate::codec::ber_len(plen + k),
                                            Len::Ll => crate::codec::llvar((plen + k).min(99), 2),
                                            Len::Lll => crate::codec::llvar((plen + k).min(999), 3),
                                            _ => None,
                                        };
                                    });
                                    if let Some(bb) = t.bytes() {
                                        bad = bb;
                                    }
                                }
                            }
                            let _ = sut.decode(&def.key, &bad);
                            r.count("interference_decodes", 1);
                        }
                    }
                    engine.base_case(sut.as_mut(), r, def, &v, &b, focus.as_deref());
                } else {
                    engine.record_coverage(r, def, &v, &b);
                }
                let do_mut = mutation_bases < plan.mutation_bases && (presence != Presence::Random || rng.chance(1, 2) || prop != Prop::All);
                if do_mut && b.len() < 4000 {
                    if prop.has(Prop::C13) {
                        engine.c13_cases(sut.as_mut(), r, &mut rng, prop_name, def, &v, &tree, plan.max_perms);
                    }
                    if prop.has(Prop::C14) {
                        let all_bytes = mutation_bases == 0;
                        engine.c14_cases(sut.as_mut(), r, &mut rng, prop_name, def, &v, &b, &tree, all_bytes, &other_packets);
                    }
                    mutation_bases += 1;
                }
            }
            r.count("types_exercised", 1);
            r.count("canonical_values", accepted);
            if accepted == 0 {
                r.inconclusive(&format!("no canonical value could be generated for {key}"));
            }
            if all_absent_canonical {
                r.note("all_absent_is_canonical", key);
            }
        }
    });
}

/// Presence-matrix floor: every optional field seen present, and seen absent where "all absent" is canonical.
pub fn presence_floor(report: &mut Report, schema: &Schema, keys: &[String]) {
    let present = report.sets.get("seen_present").cloned().unwrap_or_default();
    let absent = report.sets.get("seen_absent").cloned().unwrap_or_default();
    let all_absent_ok = report.sets.get("all_absent_is_canonical").cloned().unwrap_or_default();
    let mut gaps = vec![];
    for key in keys {
        let def = schema.get(key);
        for f in def.fields.iter().filter(|f| f.card != Card::One) {
            let id = format!("{}.{}", key, f.name);
            if !present.contains(&id) {
                gaps.push(format!("{id} never present"));
            }
            if !absent.contains(&id) && all_absent_ok.contains(key) {
                gaps.push(format!("{id} never absent"));
            }
        }
    }
    report.extra.insert("presence_matrix_complete".into(), json!(gaps.is_empty()));
    report.extra.insert("presence_gaps".into(), json!(gaps));
    if !gaps.is_empty() {
        report.inconclusive(&format!("presence matrix incomplete: {}", gaps.join("; ")));
    }
    // keep the evidence file readable: the matrix itself is summarised
    let np = present.len();
    let na = absent.len();
    report.sets.remove("seen_present");
    report.sets.remove("seen_absent");
    report.sets.remove("all_absent_is_canonical");
    let nm = report.sets.remove("seen_many").map(|s| s.len()).unwrap_or(0);
    report.extra.insert("fields_seen_present".into(), json!(np));
    report.extra.insert("fields_seen_absent".into(), json!(na));
    report.extra.insert("repeated_fields_seen_with_2plus_elements".into(), json!(nm));
}

