//! The reference codec: an independent, table-driven implementation of the
//! ZVT wire format (DESIGN §5).  Shares no code with zvt_builder/zvt_derive.

use crate::cp437::CP437;
use crate::layout::*;
use crate::val::Val;

// ---------------------------------------------------------------- errors

#[derive(Clone, Debug, PartialEq)]
pub enum RefErr {
    Incomplete,
    WrongTag(u16),
    Duplicate(u16),
    Missing(Vec<u16>),
    /// BER first byte 83.. / 80
    UnsupportedLen,
    Overflow,
    /// nibble A..E (or F in a high position)
    BadDigit,
    BadText,
    BadCalendar,
}

/// Why a value cannot be put on the wire (classes of DESIGN §5.1).
#[derive(Clone, Copy, Debug, PartialEq, Eq, Hash, PartialOrd, Ord)]
pub enum Reject {
    /// E4: too wide / too long for the field or prefix style
    TooLong,
    /// E6: outside the alphabet (non-CP437, odd hex, bad calendar, temp length)
    Alphabet,
    /// tag not representable
    Tag,
    /// value shape does not match layout (harness bug if it happens)
    Shape,
}

// ---------------------------------------------------------------- primitive encoders (independent formulas)

pub fn tag_bytes(tag: u16) -> Option<Vec<u8>> {
    let hi = (tag >> 8) as u8;
    if hi == 0x1f || hi == 0xff {
        Some(vec![hi, tag as u8])
    } else if hi == 0 && tag != 0x1f && tag != 0xff {
        Some(vec![tag as u8])
    } else {
        None
    }
}

pub fn ber_len(n: usize) -> Option<Vec<u8>> {
    Some(if n < 128 {
        vec![n as u8]
    } else if n < 256 {
        vec![0x81, n as u8]
    } else if n < 65536 {
        vec![0x82, (n >> 8) as u8, n as u8]
    } else {
        return None;
    })
}

pub fn apdu_len(n: usize) -> Option<Vec<u8>> {
    Some(if n < 255 {
        vec![n as u8]
    } else if n < 65536 {
        vec![0xff, n as u8, (n >> 8) as u8]
    } else {
        return None;
    })
}

pub fn llvar(n: usize, digits: usize) -> Option<Vec<u8>> {
    let max = 10usize.pow(digits as u32);
    if n >= max {
        return None;
    }
    let s = format!("{:0width$}", n, width = digits);
    Some(s.bytes().map(|c| 0xf0 | (c - b'0')).collect())
}

/// Packed BCD, most significant digit first, shortest even digit string, zero => empty.
pub fn bcd_bytes(n: u128) -> Vec<u8> {
    if n == 0 {
        return vec![];
    }
    let mut s = n.to_string();
    if s.len() % 2 == 1 {
        s.insert(0, '0');
    }
    s.as_bytes().chunks(2).map(|p| ((p[0] - b'0') << 4) | (p[1] - b'0')).collect()
}

pub fn cp437_encode(s: &str) -> Option<Vec<u8>> {
    s.chars().map(|c| CP437.iter().position(|t| *t == c).map(|p| p as u8)).collect()
}

pub fn cp437_decode(b: &[u8]) -> String {
    b.iter().map(|x| CP437[*x as usize]).collect()
}

pub fn hex_decode(s: &str) -> Option<Vec<u8>> {
    if s.len() % 2 != 0 {
        return None;
    }
    let b = s.as_bytes();
    let nib = |c: u8| match c {
        b'0'..=b'9' => Some(c - b'0'),
        b'a'..=b'f' => Some(c - b'a' + 10),
        _ => None,
    };
    b.chunks(2).map(|p| Some((nib(p[0])? << 4) | nib(p[1])?)).collect()
}

pub fn days_in_month(y: u32, m: u32) -> u32 {
    match m {
        1 | 3 | 5 | 7 | 8 | 10 | 12 => 31,
        4 | 6 | 9 | 11 => 30,
        2 => {
            if (y % 4 == 0 && y % 100 != 0) || y % 400 == 0 {
                29
            } else {
                28
            }
        }
        _ => 0,
    }
}

pub fn valid_datetime(d: &[u32; 6]) -> bool {
    d[0] <= 9999 && (1..=12).contains(&d[1]) && d[2] >= 1 && d[2] <= days_in_month(d[0], d[1]) && d[3] < 24 && d[4] < 60 && d[5] < 60
}

// ---------------------------------------------------------------- chunk tree

/// One encoded element: tag ‖ length prefix ‖ payload.
#[derive(Clone, Debug, PartialEq)]
pub struct Node {
    pub field: String,
    pub tag: Vec<u8>,
    pub len: Len,
    /// APDU length prefix (top-level packet) instead of `len`
    pub apdu: bool,
    pub payload: Payload,
    /// raw bytes to emit instead of the computed length prefix (hostile inputs only)
    pub prefix_override: Option<Vec<u8>>,
}

#[derive(Clone, Debug, PartialEq)]
pub enum Payload {
    Leaf(Vec<u8>),
    Struct(StructNode),
}

#[derive(Clone, Debug, PartialEq)]
pub struct StructNode {
    pub key: String,
    pub positional: Vec<Node>,
    /// one group per *present* tagged field, in declaration order
    pub groups: Vec<Group>,
}

#[derive(Clone, Debug, PartialEq)]
pub struct Group {
    pub field: String,
    pub tag: u16,
    pub mandatory: bool,
    pub repeated: bool,
    pub elems: Vec<Node>,
}

impl StructNode {
    pub fn bytes(&self) -> Option<Vec<u8>> {
        let mut out = vec![];
        for n in &self.positional {
            out.extend(n.bytes()?);
        }
        for g in &self.groups {
            for n in &g.elems {
                out.extend(n.bytes()?);
            }
        }
        Some(out)
    }
}

impl Node {
    /// Flatten, recomputing every length prefix. `None` if a payload no longer fits its prefix.
    pub fn bytes(&self) -> Option<Vec<u8>> {
        let payload = match &self.payload {
            Payload::Leaf(b) => b.clone(),
            Payload::Struct(s) => s.bytes()?,
        };
        let mut out = self.tag.clone();
        if let Some(p) = &self.prefix_override {
            out.extend(p);
            out.extend(payload);
            return Some(out);
        }
        if self.apdu {
            out.extend(apdu_len(payload.len())?);
            out.extend(payload);
            return Some(out);
        }
        match &self.len {
            Len::None | Len::Temp => {}
            Len::Fixed(n) => {
                if payload.len() > *n {
                    return None;
                }
                out.extend(std::iter::repeat(0u8).take(n - payload.len()));
            }
            Len::Ll => out.extend(llvar(payload.len(), 2)?),
            Len::Lll => out.extend(llvar(payload.len(), 3)?),
            Len::Ber => out.extend(ber_len(payload.len())?),
        }
        out.extend(payload);
        Some(out)
    }

    /// Visit every struct node (depth first), with the path of field names leading to it.
    pub fn visit_structs<'a>(&'a self, path: &mut Vec<String>, f: &mut dyn FnMut(&[String], &'a StructNode)) {
        if let Payload::Struct(s) = &self.payload {
            f(path, s);
            for (i, n) in s.positional.iter().enumerate() {
                path.push(format!("p{i}"));
                n.visit_structs(path, f);
                path.pop();
            }
            for (gi, g) in s.groups.iter().enumerate() {
                for (ei, n) in g.elems.iter().enumerate() {
                    path.push(format!("g{gi}.{ei}"));
                    n.visit_structs(path, f);
                    path.pop();
                }
            }
        }
    }

    /// Mutable access to the struct node at `path` (as produced by visit_structs).
    pub fn struct_at_mut(&mut self, path: &[String]) -> Option<&mut StructNode> {
        let Payload::Struct(s) = &mut self.payload else {
            return None;
        };
        if path.is_empty() {
            return Some(s);
        }
        let p = &path[0];
        if let Some(i) = p.strip_prefix('p') {
            let i: usize = i.parse().ok()?;
            s.positional.get_mut(i)?.struct_at_mut(&path[1..])
        } else if let Some(rest) = p.strip_prefix('g') {
            let (gi, ei) = rest.split_once('.')?;
            let gi: usize = gi.parse().ok()?;
            let ei: usize = ei.parse().ok()?;
            s.groups.get_mut(gi)?.elems.get_mut(ei)?.struct_at_mut(&path[1..])
        } else {
            None
        }
    }
}

// ---------------------------------------------------------------- encoder

pub struct Codec<'a> {
    pub schema: &'a Schema,
}

impl<'a> Codec<'a> {
    pub fn new(schema: &'a Schema) -> Self {
        Codec { schema }
    }

    fn enc_scalar(&self, enc: &Enc, v: &Val) -> Result<Payload, Reject> {
        Ok(Payload::Leaf(match (enc, v) {
            (Enc::Int { ty, be }, Val::Num(n)) => {
                if *n > ty.max() {
                    return Err(Reject::TooLong);
                }
                let mut b: Vec<u8> = (0..ty.bytes()).map(|i| (*n >> (8 * i)) as u8).collect();
                if *be {
                    b.reverse();
                }
                b
            }
            (Enc::Bcd(ty), Val::Num(n)) => {
                if *n > ty.max() {
                    return Err(Reject::TooLong);
                }
                bcd_bytes(*n)
            }
            (Enc::Rcpt, Val::Num(n)) => {
                if *n == 0xffff {
                    vec![0xff, 0xff]
                } else if *n <= 9999 {
                    bcd_bytes(*n)
                } else {
                    return Err(Reject::TooLong);
                }
            }
            (Enc::Cp437, Val::Text(s)) => cp437_encode(s).ok_or(Reject::Alphabet)?,
            (Enc::Utf8, Val::Text(s)) => s.as_bytes().to_vec(),
            (Enc::Hex, Val::Hex(s)) => hex_decode(s).ok_or(Reject::Alphabet)?,
            (Enc::Bytes, Val::Bytes(b)) => b.clone(),
            (Enc::DateTime, Val::DateTime(d)) => {
                if !valid_datetime(d) {
                    return Err(Reject::Alphabet);
                }
                let date = (d[0] as u128) * 10000 + (d[1] as u128) * 100 + d[2] as u128;
                let time = (d[3] as u128) * 10000 + (d[4] as u128) * 100 + d[5] as u128;
                let db = bcd_bytes(date);
                let tb = bcd_bytes(time);
                let mut out = vec![0x1f, 0x0e];
                out.extend(ber_len(db.len()).unwrap());
                out.extend(db);
                out.extend([0x1f, 0x0f]);
                out.extend(ber_len(tb.len()).unwrap());
                out.extend(tb);
                out
            }
            (Enc::Struct(k), v @ Val::Struct(_)) => return Ok(Payload::Struct(self.enc_struct(self.schema.get(k), v)?)),
            _ => return Err(Reject::Shape),
        }))
    }

    fn enc_elem(&self, f: &Field, v: &Val) -> Result<Node, Reject> {
        let payload = self.enc_scalar(&f.enc, v)?;
        let tag = match f.tag {
            None => vec![],
            Some(t) => tag_bytes(t).ok_or(Reject::Tag)?,
        };
        let node = Node {
            field: f.name.clone(),
            tag,
            len: f.len.clone(),
            apdu: false,
            payload,
            prefix_override: None,
        };
        // checks that only concern this element
        let plen = match &node.payload {
            Payload::Leaf(b) => b.len(),
            Payload::Struct(s) => s.bytes().ok_or(Reject::TooLong)?.len(),
        };
        match &f.len {
            Len::Fixed(n) if plen > *n => return Err(Reject::TooLong),
            Len::Ll if plen > 99 => return Err(Reject::TooLong),
            Len::Lll if plen > 999 => return Err(Reject::TooLong),
            Len::Ber if plen > 65535 => return Err(Reject::TooLong),
            Len::Temp if !(3..=4).contains(&plen) => return Err(Reject::Alphabet),
            _ => {}
        }
        Ok(node)
    }

    pub fn enc_struct(&self, def: &StructDef, v: &Val) -> Result<StructNode, Reject> {
        let Val::Struct(fields) = v else {
            return Err(Reject::Shape);
        };
        let mut node = StructNode {
            key: def.key.clone(),
            positional: vec![],
            groups: vec![],
        };
        for f in &def.fields {
            let fv = &fields.iter().find(|(n, _)| n == &f.name).ok_or(Reject::Shape)?.1;
            let elems: Vec<Node> = match (f.card, fv) {
                (Card::One, v) => vec![self.enc_elem(f, v)?],
                (Card::Opt, Val::Opt(None)) => vec![],
                (Card::Opt, Val::Opt(Some(b))) => vec![self.enc_elem(f, b)?],
                (Card::Many, Val::List(items)) => items.iter().map(|it| self.enc_elem(f, it)).collect::<Result<_, _>>()?,
                _ => return Err(Reject::Shape),
            };
            // an empty binary payload is encoded as absence of the element (E3)
            let elems: Vec<Node> = if f.enc == Enc::Bytes {
                elems.into_iter().filter(|n| n.payload != Payload::Leaf(vec![])).collect()
            } else {
                elems
            };
            match f.tag {
                None => node.positional.extend(elems),
                Some(t) => {
                    if !elems.is_empty() {
                        node.groups.push(Group {
                            field: f.name.clone(),
                            tag: t,
                            mandatory: f.card == Card::One,
                            repeated: f.card == Card::Many,
                            elems,
                        });
                    }
                }
            }
        }
        Ok(node)
    }

    /// Encode a top-level value: an APDU when the struct has a control field,
    /// the bare struct body otherwise.
    pub fn enc_top(&self, def: &StructDef, v: &Val) -> Result<Node, Reject> {
        let s = self.enc_struct(def, v)?;
        let n = Node {
            field: def.key.clone(),
            tag: def.cf.map(|(c, i)| vec![c, i]).unwrap_or_default(),
            len: Len::None,
            apdu: def.cf.is_some(),
            payload: Payload::Struct(s),
            prefix_override: None,
        };
        if n.bytes().is_none() {
            return Err(Reject::TooLong);
        }
        Ok(n)
    }

    pub fn encode(&self, def: &StructDef, v: &Val) -> Result<Vec<u8>, Reject> {
        Ok(self.enc_top(def, v)?.bytes().unwrap())
    }

    // ------------------------------------------------------------ decoder

    pub fn read_tag<'b>(b: &'b [u8]) -> Result<(u16, &'b [u8]), RefErr> {
        let Some(&first) = b.first() else {
            return Err(RefErr::Incomplete);
        };
        if first == 0x1f || first == 0xff {
            let Some(&second) = b.get(1) else {
                return Err(RefErr::Incomplete);
            };
            Ok((((first as u16) << 8) | second as u16, &b[2..]))
        } else {
            Ok((first as u16, &b[1..]))
        }
    }

    pub fn read_ber<'b>(b: &'b [u8]) -> Result<(usize, &'b [u8]), RefErr> {
        match b.first() {
            None => Err(RefErr::Incomplete),
            Some(&x) if x < 0x80 => Ok((x as usize, &b[1..])),
            Some(0x81) => match b.get(1) {
                Some(&n) => Ok((n as usize, &b[2..])),
                None => Err(RefErr::Incomplete),
            },
            Some(0x82) => {
                if b.len() < 3 {
                    Err(RefErr::Incomplete)
                } else {
                    Ok((((b[1] as usize) << 8) | b[2] as usize, &b[3..]))
                }
            }
            Some(_) => Err(RefErr::UnsupportedLen),
        }
    }

    pub fn read_apdu_len<'b>(b: &'b [u8]) -> Result<(usize, &'b [u8]), RefErr> {
        match b.first() {
            None => Err(RefErr::Incomplete),
            Some(0xff) => {
                if b.len() < 3 {
                    Err(RefErr::Incomplete)
                } else {
                    Ok(((b[1] as usize) | ((b[2] as usize) << 8), &b[3..]))
                }
            }
            Some(&x) => Ok((x as usize, &b[1..])),
        }
    }

    pub fn read_llvar<'b>(b: &'b [u8], digits: usize) -> Result<(usize, &'b [u8]), RefErr> {
        if b.len() < digits {
            return Err(RefErr::Incomplete);
        }
        let mut n = 0usize;
        for d in &b[..digits] {
            n = n * 10 + (d & 0x0f) as usize;
        }
        Ok((n, &b[digits..]))
    }

    fn read_len<'b>(len: &Len, b: &'b [u8]) -> Result<(usize, &'b [u8]), RefErr> {
        match len {
            Len::None => Ok((b.len(), b)),
            Len::Fixed(n) => {
                if b.len() < *n {
                    Err(RefErr::Incomplete)
                } else {
                    Ok((*n, b))
                }
            }
            Len::Ll => Self::read_llvar(b, 2),
            Len::Lll => Self::read_llvar(b, 3),
            Len::Ber => Self::read_ber(b),
            Len::Temp => {
                if b.len() < 3 {
                    Err(RefErr::Incomplete)
                } else {
                    Ok((b.len().min(4), b))
                }
            }
        }
    }

    /// BCD digits of a scope -> number; an F in a *low* nibble is padding.
    pub fn bcd_value(scope: &[u8], max: u128) -> Result<u128, RefErr> {
        let mut n: u128 = 0;
        let mut push = |d: u8, n: &mut u128| -> Result<(), RefErr> {
            *n = n.checked_mul(10).and_then(|x| x.checked_add(d as u128)).ok_or(RefErr::Overflow)?;
            if *n > max {
                return Err(RefErr::Overflow);
            }
            Ok(())
        };
        for b in scope {
            let (hi, lo) = (b >> 4, b & 0xf);
            if hi > 9 {
                return Err(RefErr::BadDigit);
            }
            push(hi, &mut n)?;
            if lo == 0xf {
                continue;
            }
            if lo > 9 {
                return Err(RefErr::BadDigit);
            }
            push(lo, &mut n)?;
        }
        Ok(n)
    }

    /// Returns (value, number of bytes of the scope left unread).
    fn dec_scalar(&self, enc: &Enc, scope: &[u8]) -> Result<(Val, usize), RefErr> {
        Ok(match enc {
            Enc::Int { ty, be } => {
                let k = ty.bytes();
                if scope.len() < k {
                    return Err(RefErr::Incomplete);
                }
                let mut n: u128 = 0;
                for i in 0..k {
                    let byte = if *be { scope[i] } else { scope[k - 1 - i] };
                    n = (n << 8) | byte as u128;
                }
                (Val::Num(n), scope.len() - k)
            }
            Enc::Bcd(ty) => (Val::Num(Self::bcd_value(scope, ty.max())?), 0),
            Enc::Rcpt => {
                if scope.len() < 2 {
                    return Err(RefErr::Incomplete);
                }
                let v = if scope[0] == 0xff && scope[1] == 0xff {
                    0xffff
                } else {
                    Self::bcd_value(&scope[..2], u64::MAX as u128)?
                };
                (Val::Num(v), scope.len() - 2)
            }
            Enc::Cp437 => {
                let s = cp437_decode(scope);
                (Val::Text(s.trim_end_matches('\0').to_string()), 0)
            }
            Enc::Utf8 => (Val::Text(String::from_utf8(scope.to_vec()).map_err(|_| RefErr::BadText)?), 0),
            Enc::Hex => (Val::Hex(crate::hex(scope)), 0),
            Enc::Bytes => (Val::Bytes(scope.to_vec()), 0),
            Enc::DateTime => {
                let mut b = scope;
                let (mut date, mut time) = (None, None);
                while !b.is_empty() {
                    let (t, _) = Self::read_tag(b)?;
                    if t != 0x1f0e && t != 0x1f0f {
                        break;
                    }
                    let (_, r) = Self::read_tag(b)?;
                    let (n, r) = Self::read_ber(r)?;
                    if n > r.len() {
                        return Err(RefErr::Incomplete);
                    }
                    let slot = if t == 0x1f0e { &mut date } else { &mut time };
                    if slot.is_some() {
                        return Err(RefErr::Duplicate(t));
                    }
                    *slot = Some(Self::bcd_value(&r[..n], if t == 0x1f0e { u64::MAX as u128 } else { u32::MAX as u128 })?);
                    b = &r[n..];
                }
                let (Some(date), Some(time)) = (date, time) else {
                    return Err(RefErr::Incomplete);
                };
                let d = [
                    (date / 10000) as u32,
                    ((date / 100) % 100) as u32,
                    (date % 100) as u32,
                    (time / 10000) as u32,
                    ((time / 100) % 100) as u32,
                    (time % 100) as u32,
                ];
                if date / 10000 > 9999 || !valid_datetime(&d) {
                    return Err(RefErr::BadCalendar);
                }
                (Val::DateTime(d), b.len())
            }
            Enc::Struct(k) => {
                let (v, rest) = self.dec_struct(self.schema.get(k), scope)?;
                (v, rest.len())
            }
        })
    }

    fn dec_elem<'b>(&self, f: &Field, bytes: &'b [u8], with_tag: bool) -> Result<(Val, &'b [u8]), RefErr> {
        let mut b = bytes;
        if with_tag {
            let (t, r) = Self::read_tag(b)?;
            if Some(t) != f.tag {
                return Err(RefErr::WrongTag(t));
            }
            b = r;
        }
        let (n, after) = Self::read_len(&f.len, b)?;
        if n > after.len() {
            return Err(RefErr::Incomplete);
        }
        let (v, left) = self.dec_scalar(&f.enc, &after[..n])?;
        Ok((v, &after[n - left..]))
    }

    /// Decode the body of a struct; returns the value and the unread rest.
    pub fn dec_struct<'b>(&self, def: &StructDef, bytes: &'b [u8]) -> Result<(Val, &'b [u8]), RefErr> {
        let mut b = bytes;
        let mut out: Vec<(String, Val)> = def
            .fields
            .iter()
            .map(|f| {
                (
                    f.name.clone(),
                    match f.card {
                        Card::One => Val::Opt(None), // placeholder, replaced or reported missing
                        Card::Opt => Val::Opt(None),
                        Card::Many => Val::List(vec![]),
                    },
                )
            })
            .collect();
        // positional fields, in order
        for (i, f) in def.fields.iter().enumerate() {
            if f.tag.is_some() {
                continue;
            }
            match f.card {
                Card::One => {
                    let (v, r) = self.dec_elem(f, b, false)?;
                    out[i].1 = v;
                    b = r;
                }
                // "present iff it decodes".  Whether bytes with nibbles A-F "decode" as BCD is
                // outside every claim, so such inputs are not given a meaning by the reference
                // (the error is propagated instead of being read as "absent").
                Card::Opt => match self.dec_elem(f, b, false) {
                    Ok((v, r)) => {
                        out[i].1 = Val::some(v);
                        b = r;
                    }
                    Err(RefErr::BadDigit) => return Err(RefErr::BadDigit),
                    Err(_) => {}
                },
                Card::Many => {
                    let mut items = vec![];
                    loop {
                        match self.dec_elem(f, b, false) {
                            Ok((v, r)) => {
                                // an element that consumes nothing would repeat forever: ill-formed layout
                                if r.len() == b.len() {
                                    break;
                                }
                                items.push(v);
                                b = r;
                            }
                            Err(RefErr::BadDigit) => return Err(RefErr::BadDigit),
                            Err(_) => break,
                        }
                    }
                    out[i].1 = Val::List(items);
                }
            }
        }
        // tagged fields, any order
        let mut seen: Vec<u16> = vec![];
        while !b.is_empty() {
            let Ok((tag, _)) = Self::read_tag(b) else {
                break;
            };
            let Some(i) = def.fields.iter().position(|f| f.tag == Some(tag)) else {
                break; // unknown tag ends the struct and leaves the rest
            };
            let f = &def.fields[i];
            if seen.contains(&tag) {
                return Err(RefErr::Duplicate(tag));
            }
            seen.push(tag);
            match f.card {
                Card::One => {
                    let (v, r) = self.dec_elem(f, b, true)?;
                    out[i].1 = v;
                    b = r;
                }
                Card::Opt => {
                    let (v, r) = self.dec_elem(f, b, true)?;
                    out[i].1 = Val::some(v);
                    b = r;
                }
                Card::Many => {
                    let mut items = vec![];
                    loop {
                        match self.dec_elem(f, b, true) {
                            Ok((v, r)) => {
                                items.push(v);
                                b = r;
                            }
                            // non-digit nibbles have no meaning in any claim: never read as "the list ends here"
                            Err(RefErr::BadDigit) => return Err(RefErr::BadDigit),
                            Err(_) => break,
                        }
                    }
                    if items.is_empty() {
                        break; // the list's first element is undecodable: the struct ends here
                    }
                    out[i].1 = Val::List(items);
                }
            }
        }
        let mut missing: Vec<u16> = def
            .fields
            .iter()
            .filter(|f| f.card == Card::One && f.tag.is_some() && !seen.contains(&f.tag.unwrap()))
            .map(|f| f.tag.unwrap())
            .collect();
        if !missing.is_empty() {
            missing.sort();
            return Err(RefErr::Missing(missing));
        }
        Ok((Val::Struct(out), b))
    }

    /// Decode a top-level value (APDU when the struct has a control field).
    pub fn decode<'b>(&self, def: &StructDef, bytes: &'b [u8]) -> Result<(Val, &'b [u8]), RefErr> {
        match def.cf {
            None => self.dec_struct(def, bytes),
            Some((c, i)) => {
                if bytes.len() < 2 {
                    return Err(RefErr::Incomplete);
                }
                if bytes[0] != c || bytes[1] != i {
                    return Err(RefErr::WrongTag(((bytes[0] as u16) << 8) | bytes[1] as u16));
                }
                let (n, after) = Self::read_apdu_len(&bytes[2..])?;
                if n > after.len() {
                    return Err(RefErr::Incomplete);
                }
                let (v, rest) = self.dec_struct(def, &after[..n])?;
                Ok((v, &after[n - rest.len()..]))
            }
        }
    }

    /// Canonical = fixed point of the reference codec (DESIGN §5.1).
    pub fn canonical(&self, def: &StructDef, v: &Val) -> Result<Vec<u8>, CanonFail> {
        let b = self.encode(def, v).map_err(CanonFail::Reject)?;
        match self.decode(def, &b) {
            Ok((v2, rest)) if rest.is_empty() && &v2 == v => Ok(b),
            Ok(_) => Err(CanonFail::NotFixedPoint),
            Err(e) => Err(CanonFail::DecodeErr(e)),
        }
    }
}

#[derive(Clone, Debug, PartialEq)]
pub enum CanonFail {
    Reject(Reject),
    NotFixedPoint,
    DecodeErr(RefErr),
}
