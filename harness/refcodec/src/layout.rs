//! Layout model + the small text DSL the layout tables are written in.
//!
//! One struct per block:
//!
//! ```text
//! struct <key> [cf=<hex4>]
//!   <field> <card> <tag> <len> <enc>
//! ```
//!
//! card: `1` mandatory, `?` optional, `*` repeated
//! tag:  `-` positional, otherwise hex number of the BMP / TLV tag
//! len:  `-` none, `fN` fixed N bytes, `ll`, `lll`, `ber`, `temp`
//! enc:  `u8 u16le u16be u32le u32be u64le u64be usizele usizebe`,
//!       `bcd:u8|u16|u32|u64|usize`, `cp437`, `hex`, `utf8`, `bytes`,
//!       `datetime`, `rcpt`, `{Key}` nested struct

use std::collections::BTreeMap;

#[derive(Clone, Copy, Debug, PartialEq, Eq, Hash)]
pub enum IntTy {
    U8,
    U16,
    U32,
    U64,
    Usize,
}

impl IntTy {
    pub fn bytes(self) -> usize {
        match self {
            IntTy::U8 => 1,
            IntTy::U16 => 2,
            IntTy::U32 => 4,
            IntTy::U64 | IntTy::Usize => 8,
        }
    }
    pub fn max(self) -> u128 {
        (1u128 << (8 * self.bytes())) - 1
    }
    pub fn rust(self) -> &'static str {
        match self {
            IntTy::U8 => "u8",
            IntTy::U16 => "u16",
            IntTy::U32 => "u32",
            IntTy::U64 => "u64",
            IntTy::Usize => "usize",
        }
    }
    pub fn parse(s: &str) -> Option<IntTy> {
        Some(match s {
            "u8" => IntTy::U8,
            "u16" => IntTy::U16,
            "u32" => IntTy::U32,
            "u64" => IntTy::U64,
            "usize" => IntTy::Usize,
            _ => return None,
        })
    }
}

#[derive(Clone, Debug, PartialEq, Eq)]
pub enum Len {
    None,
    Fixed(usize),
    Ll,
    Lll,
    Ber,
    Temp,
}

#[derive(Clone, Debug, PartialEq, Eq)]
pub enum Enc {
    Int { ty: IntTy, be: bool },
    Bcd(IntTy),
    Cp437,
    Hex,
    Utf8,
    Bytes,
    DateTime,
    Rcpt,
    Struct(String),
}

#[derive(Clone, Copy, Debug, PartialEq, Eq)]
pub enum Card {
    One,
    Opt,
    Many,
}

#[derive(Clone, Debug, PartialEq)]
pub struct Field {
    pub name: String,
    pub card: Card,
    pub tag: Option<u16>,
    pub len: Len,
    pub enc: Enc,
}

#[derive(Clone, Debug, PartialEq)]
pub struct StructDef {
    /// Unique key, e.g. `packets::tlv::StatusInformation`.
    pub key: String,
    /// Control field (class, instruction) of a top-level packet.
    pub cf: Option<(u8, u8)>,
    pub fields: Vec<Field>,
}

impl StructDef {
    /// Bare Rust identifier (what derived `Debug` prints).
    pub fn ident(&self) -> &str {
        self.key.rsplit("::").next().unwrap()
    }
}

#[derive(Clone, Debug, Default)]
pub struct Schema {
    pub structs: BTreeMap<String, StructDef>,
    pub order: Vec<String>,
}

impl Schema {
    pub fn get(&self, key: &str) -> &StructDef {
        self.structs
            .get(key)
            .unwrap_or_else(|| panic!("layout: unknown struct {key}"))
    }
    pub fn add(&mut self, def: StructDef) {
        self.order.push(def.key.clone());
        self.structs.insert(def.key.clone(), def);
    }
    pub fn iter(&self) -> impl Iterator<Item = &StructDef> {
        self.order.iter().map(move |k| &self.structs[k])
    }

    /// Inverse of `parse`.
    pub fn to_text(&self) -> String {
        let mut out = String::new();
        for d in self.iter() {
            out.push_str(&format!("struct {}", d.key));
            if let Some((c, i)) = d.cf {
                out.push_str(&format!(" cf={c:02X}{i:02X}"));
            }
            out.push('\n');
            for f in &d.fields {
                let card = match f.card {
                    Card::One => "1",
                    Card::Opt => "?",
                    Card::Many => "*",
                };
                let tag = f.tag.map(|t| format!("{t:X}")).unwrap_or_else(|| "-".into());
                let len = match &f.len {
                    Len::None => "-".to_string(),
                    Len::Fixed(n) => format!("f{n}"),
                    Len::Ll => "ll".into(),
                    Len::Lll => "lll".into(),
                    Len::Ber => "ber".into(),
                    Len::Temp => "temp".into(),
                };
                let enc = match &f.enc {
                    Enc::Int { ty: IntTy::U8, .. } => "u8".to_string(),
                    Enc::Int { ty, be } => format!("{}{}", ty.rust(), if *be { "be" } else { "le" }),
                    Enc::Bcd(ty) => format!("bcd:{}", ty.rust()),
                    Enc::Cp437 => "cp437".into(),
                    Enc::Hex => "hex".into(),
                    Enc::Utf8 => "utf8".into(),
                    Enc::Bytes => "bytes".into(),
                    Enc::DateTime => "datetime".into(),
                    Enc::Rcpt => "rcpt".into(),
                    Enc::Struct(k) => format!("{{{k}}}"),
                };
                out.push_str(&format!("  {} {} {} {} {}\n", f.name, card, tag, len, enc));
            }
            out.push('\n');
        }
        out
    }

    pub fn parse(text: &str) -> Schema {
        let mut schema = Schema::default();
        let mut cur: Option<StructDef> = None;
        for (ln, raw) in text.lines().enumerate() {
            let line = raw.split('#').next().unwrap().trim();
            if line.is_empty() {
                continue;
            }
            let toks: Vec<&str> = line.split_whitespace().collect();
            if toks[0] == "struct" {
                if let Some(d) = cur.take() {
                    schema.add(d);
                }
                let mut cf = None;
                for t in &toks[2..] {
                    if let Some(h) = t.strip_prefix("cf=") {
                        let v = u16::from_str_radix(h, 16).expect("cf");
                        cf = Some(((v >> 8) as u8, v as u8));
                    } else {
                        panic!("layout line {}: bad token {t}", ln + 1);
                    }
                }
                cur = Some(StructDef {
                    key: toks[1].to_string(),
                    cf,
                    fields: vec![],
                });
                continue;
            }
            assert!(toks.len() == 5, "layout line {}: need 5 tokens: {line}", ln + 1);
            let card = match toks[1] {
                "1" => Card::One,
                "?" => Card::Opt,
                "*" => Card::Many,
                o => panic!("layout line {}: card {o}", ln + 1),
            };
            let tag = if toks[2] == "-" {
                None
            } else {
                Some(u16::from_str_radix(toks[2], 16).expect("tag"))
            };
            let len = match toks[3] {
                "-" => Len::None,
                "ll" => Len::Ll,
                "lll" => Len::Lll,
                "ber" => Len::Ber,
                "temp" => Len::Temp,
                o => Len::Fixed(o.strip_prefix('f').and_then(|n| n.parse().ok()).unwrap_or_else(|| panic!("layout line {}: len {o}", ln + 1))),
            };
            let e = toks[4];
            let enc = if let Some(k) = e.strip_prefix('{') {
                Enc::Struct(k.trim_end_matches('}').to_string())
            } else if let Some(t) = e.strip_prefix("bcd:") {
                Enc::Bcd(IntTy::parse(t).expect("bcd type"))
            } else {
                match e {
                    "cp437" => Enc::Cp437,
                    "hex" => Enc::Hex,
                    "utf8" => Enc::Utf8,
                    "bytes" => Enc::Bytes,
                    "datetime" => Enc::DateTime,
                    "rcpt" => Enc::Rcpt,
                    "u8" => Enc::Int { ty: IntTy::U8, be: false },
                    _ => {
                        let (t, be) = if let Some(t) = e.strip_suffix("le") {
                            (t, false)
                        } else if let Some(t) = e.strip_suffix("be") {
                            (t, true)
                        } else {
                            panic!("layout line {}: enc {e}", ln + 1)
                        };
                        Enc::Int { ty: IntTy::parse(t).unwrap_or_else(|| panic!("layout line {}: enc {e}", ln + 1)), be }
                    }
                }
            };
            cur.as_mut().expect("field before struct").fields.push(Field {
                name: toks[0].to_string(),
                card,
                tag,
                len,
                enc,
            });
        }
        if let Some(d) = cur.take() {
            schema.add(d);
        }
        // referential integrity
        for d in schema.structs.values() {
            for f in &d.fields {
                if let Enc::Struct(k) = &f.enc {
                    assert!(schema.structs.contains_key(k), "layout: {} refers to unknown {}", d.key, k);
                }
            }
        }
        schema
    }
}
