//! Shared reporting: evidence file, violations with replay files, known
//! findings, three-valued exit code (0 held / 1 violation / 2 inconclusive).

use serde_json::{json, Map, Value};
use std::collections::{BTreeMap, BTreeSet, HashSet};
use std::path::PathBuf;
use std::time::Instant;

/// Where verdict lines go.  The code under test prints to stdout (`println!` in the firmware
/// upload); `silence_stdout` points fd 1 at /dev/null and keeps the original for our own lines.
static OUT_FD: std::sync::atomic::AtomicI32 = std::sync::atomic::AtomicI32::new(1);

pub fn silence_stdout() {
    unsafe {
        let saved = libc::dup(1);
        let null = libc::open(b"/dev/null\0".as_ptr() as *const libc::c_char, libc::O_WRONLY);
        if saved >= 0 && null >= 0 {
            libc::dup2(null, 1);
            libc::close(null);
            OUT_FD.store(saved, std::sync::atomic::Ordering::SeqCst);
        }
    }
}

pub fn out_write(s: &str) {
    let fd = OUT_FD.load(std::sync::atomic::Ordering::SeqCst);
    let b = s.as_bytes();
    let mut off = 0;
    while off < b.len() {
        let n = unsafe { libc::write(fd, b[off..].as_ptr() as *const libc::c_void, b.len() - off) };
        if n <= 0 {
            break;
        }
        off += n as usize;
    }
}

#[macro_export]
macro_rules! outln {
    ($($arg:tt)*) => {
        $crate::evidence::out_write(&format!("{}\n", format!($($arg)*)))
    };
}

pub const DISTINCT_CAP: usize = 6_000_000;

pub fn root() -> PathBuf {
    PathBuf::from(std::env::var("VERIF_ROOT").unwrap_or_else(|_| "/verif".into()))
}

#[derive(Clone, Debug)]
pub struct Known {
    pub property: String,
    pub signature: String,
    pub what: String,
    pub status: String,
}

pub fn load_known() -> Vec<Known> {
    let p = root().join("known_findings.json");
    let Ok(text) = std::fs::read_to_string(&p) else {
        return vec![];
    };
    let v: Value = serde_json::from_str(&text).expect("known_findings.json is not valid JSON");
    v.as_array()
        .expect("known_findings.json: array expected")
        .iter()
        .map(|e| Known {
            property: e["property"].as_str().unwrap_or("").to_string(),
            signature: e["signature"].as_str().unwrap_or("").to_string(),
            what: e["what"].as_str().unwrap_or("").to_string(),
            status: e["status"].as_str().unwrap_or("open").to_string(),
        })
        .collect()
}

pub struct Report {
    pub property: String,
    pub tier: String,
    pub seed: u64,
    pub level: String,
    pub rule: String,
    pub exhaustive: Option<bool>,
    pub assumptions: Vec<String>,
    pub extra: Map<String, Value>,
    pub evaluations: u64,
    pub nontrivial_total: u64,
    /// cases that are distinct by construction (duplicate-free enumeration), counted without hashing
    pub distinct_enumerated: u64,
    distinct: HashSet<u64>,
    distinct_capped: bool,
    pub samples: Vec<Value>,
    pub max_samples: usize,
    /// signature -> (what, replay)
    pub violations: BTreeMap<String, (String, Value)>,
    pub violation_count: u64,
    pub inconclusive: Vec<String>,
    /// free counters, merged by addition
    pub counters: BTreeMap<String, u64>,
    /// free sets, merged by union
    pub sets: BTreeMap<String, BTreeSet<String>>,
    start: Instant,
}

impl Report {
    pub fn new(property: &str, tier: &str, seed: u64, level: &str) -> Self {
        Report {
            property: property.to_string(),
            tier: tier.to_string(),
            seed,
            level: level.to_string(),
            rule: String::new(),
            exhaustive: None,
            assumptions: vec![],
            extra: Map::new(),
            evaluations: 0,
            nontrivial_total: 0,
            distinct_enumerated: 0,
            distinct: HashSet::new(),
            distinct_capped: false,
            samples: vec![],
            max_samples: 6,
            violations: BTreeMap::new(),
            violation_count: 0,
            inconclusive: vec![],
            counters: BTreeMap::new(),
            sets: BTreeMap::new(),
            start: Instant::now(),
        }
    }

    /// A fresh report with the same identity, for a worker shard.
    pub fn shard(&self) -> Report {
        let mut r = Report::new(&self.property, &self.tier, self.seed, &self.level);
        r.max_samples = 2;
        r
    }

    /// Count one execution; `hash` identifies the case's content, `nontrivial`
    /// says whether it satisfies the property's non-triviality rule.
    pub fn case(&mut self, hash: u64, nontrivial: bool) {
        self.evaluations += 1;
        if nontrivial {
            self.nontrivial_total += 1;
            if self.distinct.len() < DISTINCT_CAP {
                self.distinct.insert(hash);
            } else {
                self.distinct_capped = true;
            }
        }
    }

    /// Count one execution of a duplicate-free enumeration (no hashing needed).
    pub fn case_enumerated(&mut self, nontrivial: bool) {
        self.evaluations += 1;
        if nontrivial {
            self.nontrivial_total += 1;
            self.distinct_enumerated += 1;
        }
    }

    pub fn distinct_count(&self) -> u64 {
        self.distinct.len() as u64 + self.distinct_enumerated
    }

    pub fn count(&mut self, key: &str, n: u64) {
        *self.counters.entry(key.to_string()).or_insert(0) += n;
    }

    pub fn note(&mut self, set: &str, item: &str) {
        let s = self.sets.entry(set.to_string()).or_default();
        if s.len() < 4096 {
            s.insert(item.to_string());
        }
    }

    pub fn sample(&mut self, v: Value) {
        if self.samples.len() < self.max_samples {
            self.samples.push(v);
        }
    }

    pub fn wants_sample(&self) -> bool {
        self.samples.len() < self.max_samples
    }

    pub fn violation(&mut self, signature: &str, what: &str, replay: Value) {
        self.violation_count += 1;
        if self.violations.len() < 64 && !self.violations.contains_key(signature) {
            self.violations.insert(signature.to_string(), (what.to_string(), replay));
        }
    }

    pub fn inconclusive(&mut self, why: &str) {
        if self.inconclusive.len() < 16 {
            self.inconclusive.push(why.to_string());
        }
    }

    pub fn merge(&mut self, o: Report) {
        self.evaluations += o.evaluations;
        self.nontrivial_total += o.nontrivial_total;
        self.distinct_enumerated += o.distinct_enumerated;
        for h in o.distinct {
            if self.distinct.len() < DISTINCT_CAP {
                self.distinct.insert(h);
            } else {
                self.distinct_capped = true;
            }
        }
        self.distinct_capped |= o.distinct_capped;
        for s in o.samples {
            if self.samples.len() < self.max_samples + 4 {
                self.samples.push(s);
            }
        }
        self.violation_count += o.violation_count;
        for (k, v) in o.violations {
            if self.violations.len() < 64 {
                self.violations.entry(k).or_insert(v);
            }
        }
        for i in o.inconclusive {
            self.inconclusive(&i);
        }
        for (k, n) in o.counters {
            *self.counters.entry(k).or_insert(0) += n;
        }
        for (k, s) in o.sets {
            let e = self.sets.entry(k).or_default();
            for i in s {
                if e.len() < 4096 {
                    e.insert(i);
                }
            }
        }
    }

    /// Serialise the counters of a report produced in another process (C12's generated crates).
    pub fn dump_json(&self) -> Value {
        json!({
            "evaluations": self.evaluations,
            "nontrivial_total": self.nontrivial_total,
            "distinct": self.distinct_count(),
            "samples": self.samples,
            "violation_count": self.violation_count,
            "violations": self.violations.iter().map(|(k, (w, r))| json!({"signature": k, "what": w, "replay": r})).collect::<Vec<_>>(),
            "inconclusive": self.inconclusive,
            "counters": self.counters,
            "sets": self.sets.iter().map(|(k, s)| (k.clone(), s.iter().cloned().collect::<Vec<_>>())).collect::<BTreeMap<_, _>>(),
            "extra": Value::Object(self.extra.clone()),
        })
    }

    /// Merge a dump; distinct cases of another process are distinct from ours by construction (other struct types).
    pub fn absorb_json(&mut self, v: &Value) {
        self.evaluations += v["evaluations"].as_u64().unwrap_or(0);
        self.nontrivial_total += v["nontrivial_total"].as_u64().unwrap_or(0);
        self.distinct_enumerated += v["distinct"].as_u64().unwrap_or(0);
        for s in v["samples"].as_array().cloned().unwrap_or_default() {
            if self.samples.len() < self.max_samples + 4 {
                self.samples.push(s);
            }
        }
        self.violation_count += v["violation_count"].as_u64().unwrap_or(0);
        for x in v["violations"].as_array().cloned().unwrap_or_default() {
            let sig = x["signature"].as_str().unwrap_or("?").to_string();
            if self.violations.len() < 64 {
                self.violations.entry(sig).or_insert((x["what"].as_str().unwrap_or("").to_string(), x["replay"].clone()));
            }
        }
        for i in v["inconclusive"].as_array().cloned().unwrap_or_default() {
            self.inconclusive(i.as_str().unwrap_or("?"));
        }
        if let Some(m) = v["counters"].as_object() {
            for (k, n) in m {
                *self.counters.entry(k.clone()).or_insert(0) += n.as_u64().unwrap_or(0);
            }
        }
        if let Some(m) = v["sets"].as_object() {
            for (k, arr) in m {
                for i in arr.as_array().cloned().unwrap_or_default() {
                    self.note(k, i.as_str().unwrap_or(""));
                }
            }
        }
    }

    /// Write evidence + replay files, print verdict lines, return the exit code.
    pub fn finish(mut self) -> i32 {
        // child mode (the same workload in another build profile): hand the raw report to the parent
        if let Ok(path) = std::env::var("VERIF_DUMP_JSON") {
            let code = if !self.violations.is_empty() { 1 } else if !self.inconclusive.is_empty() { 2 } else { 0 };
            let _ = std::fs::write(&path, serde_json::to_string(&self.dump_json()).unwrap_or_default());
            return code;
        }
        let root = root();
        let known = load_known();
        let mut unlisted: Vec<(String, String, Value)> = vec![];
        let mut known_seen: Vec<String> = vec![];
        for (sig, (what, replay)) in std::mem::take(&mut self.violations) {
            let listed = known.iter().any(|k| k.property == self.property && k.status == "open" && k.signature == sig);
            if listed {
                known_seen.push(sig);
            } else {
                unlisted.push((sig, what, replay));
            }
        }
        // a run that cannot show a single case it explored is not evidence
        if self.samples.is_empty() && self.evaluations > 0 {
            self.inconclusive("harness: the monitor recorded no sample case");
        }
        // evidence
        let mut cov = Map::new();
        cov.insert("evaluations".into(), json!(self.evaluations));
        cov.insert("distinct_nontrivial".into(), json!(self.distinct_count()));
        cov.insert("nontrivial_total".into(), json!(self.nontrivial_total));
        let mut rule = self.rule.clone();
        if self.distinct_capped {
            rule.push_str(&format!(" [distinct counting capped at {DISTINCT_CAP} hashes; the true number is at least this]"));
        }
        cov.insert("rule".into(), json!(rule));
        cov.insert("samples".into(), Value::Array(self.samples.clone()));
        if let Some(e) = self.exhaustive {
            cov.insert("exhaustive".into(), json!(e));
        }
        for (k, n) in &self.counters {
            cov.insert(k.clone(), json!(n));
        }
        for (k, s) in &self.sets {
            cov.insert(k.clone(), json!(s.iter().collect::<Vec<_>>()));
        }
        for (k, v) in &self.extra {
            cov.insert(k.clone(), v.clone());
        }
        cov.insert("known_findings_seen".into(), json!(known_seen));
        cov.insert("violation_signatures".into(), json!(unlisted.iter().map(|u| u.0.clone()).collect::<Vec<_>>()));
        cov.insert("inconclusive".into(), json!(self.inconclusive));
        let ev = json!({
            "property_id": self.property,
            "tier": self.tier,
            "seed": self.seed,
            "level": self.level,
            "coverage": Value::Object(cov),
            "assumptions": self.assumptions,
            "wall_s": (self.start.elapsed().as_secs_f64() * 1000.0).round() / 1000.0,
            "violations": unlisted.len(),
        });
        let evdir = root.join("evidence");
        let _ = std::fs::create_dir_all(&evdir);
        let evpath = evdir.join(format!("{}.json", self.property));
        if std::env::var("VERIF_NO_EVIDENCE").is_err() {
            std::fs::write(&evpath, serde_json::to_string_pretty(&ev).unwrap() + "\n").expect("write evidence");
        }
        // verdict lines
        for sig in &known_seen {
            outln!("KNOWN-FINDING: property={} {}", self.property, sig);
        }
        let mut code = 0;
        if !unlisted.is_empty() {
            let dir = root.join("replay").join(&self.property);
            let _ = std::fs::create_dir_all(&dir);
            for (i, (sig, what, replay)) in unlisted.iter().enumerate().take(20) {
                let path = dir.join(format!("{}-{}-{}.json", self.tier, self.seed, i));
                let body = json!({"property": self.property, "tier": self.tier, "seed": self.seed, "signature": sig, "what": what, "case": replay});
                let _ = std::fs::write(&path, serde_json::to_string_pretty(&body).unwrap() + "\n");
                outln!("VIOLATION property={} replay={}", self.property, path.display());
                outln!("  signature: {sig}");
                outln!("  what: {what}");
            }
            code = 1;
        }
        if code == 0 && !self.inconclusive.is_empty() {
            for why in &self.inconclusive {
                outln!("INCONCLUSIVE property={} {}", self.property, why);
            }
            code = 2;
        }
        outln!(
            "{} tier={} seed={} evaluations={} distinct_nontrivial={} violations={} known_findings={} wall={:.1}s -> {}",
            self.property,
            self.tier,
            self.seed,
            self.evaluations,
            self.distinct_count(),
            unlisted.len(),
            known_seen.len(),
            self.start.elapsed().as_secs_f64(),
            match code {
                0 => "HELD on everything explored",
                1 => "VIOLATED",
                _ => "INCONCLUSIVE",
            }
        );
        code
    }
}

/// Strip digits so that panic messages / errors become stable signatures.
pub fn strip_numbers(s: &str) -> String {
    let mut out = String::new();
    let mut last_digit = false;
    for c in s.chars() {
        if c.is_ascii_digit() {
            if !last_digit {
                out.push('#');
            }
            last_digit = true;
        } else {
            out.push(c);
            last_digit = false;
        }
    }
    out
}

/// Run `f(shard_index, shard_report)` on `n` threads and merge the shard reports.
pub fn sharded<F>(report: &mut Report, n: usize, f: F)
where
    F: Fn(usize, &mut Report) + Sync,
{
    let shards: Vec<Report> = std::thread::scope(|s| {
        let handles: Vec<_> = (0..n)
            .map(|i| {
                let mut r = report.shard();
                let f = &f;
                std::thread::Builder::new()
                    .stack_size(64 << 20)
                    .spawn_scoped(s, move || {
                        f(i, &mut r);
                        r
                    })
                    .unwrap()
            })
            .collect();
        handles
            .into_iter()
            .map(|h| match h.join() {
                Ok(r) => r,
                Err(e) => {
                    // a bug in the harness must never look like a verdict
                    let msg = e.downcast_ref::<String>().cloned().or_else(|| e.downcast_ref::<&str>().map(|s| s.to_string())).unwrap_or_else(|| "?".into());
                    let mut r = Report::new("?", "quick", 0, "exploration");
                    r.inconclusive(&format!("harness error: a worker thread panicked: {}", msg.chars().take(300).collect::<String>()));
                    r
                }
            })
            .collect()
    });
    for r in shards {
        report.merge(r);
    }
}

