//! Reference codec, layout tables, generators and shared monitor plumbing.
pub mod codec;
pub mod cp437;
pub mod engine;
pub mod evidence;
pub mod fromval;
pub mod gen;
pub mod layout;
pub mod prng;
pub mod runaway;
pub mod tables;
pub mod val;

pub fn hex(b: &[u8]) -> String {
    let mut s = String::with_capacity(b.len() * 2);
    for x in b {
        s.push_str(&format!("{x:02x}"));
    }
    s
}

pub fn unhex(s: &str) -> Option<Vec<u8>> {
    codec::hex_decode(&s.to_lowercase())
}

/// The layout table of the shipped packets.
pub fn zvt_schema() -> layout::Schema {
    layout::Schema::parse(include_str!("layout_zvt.txt"))
}
