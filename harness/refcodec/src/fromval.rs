//! Construction of typed Rust values from reference values: the generic part
//! (numbers, text, bytes, date-time, Option, Vec) as a macro, because the trait
//! must be local to the crate that implements it for the (foreign) packet types.

#[macro_export]
macro_rules! fromval_prelude {
    () => {
        pub trait FromVal: Sized {
            fn from_val(v: &$crate::val::Val) -> Option<Self>;
        }
        /// marker: may be an element of a Vec field
        pub trait Elem {}

                impl FromVal for u8 {
                    fn from_val(v: &$crate::val::Val) -> Option<Self> {
                        match v {
                            $crate::val::Val::Num(n) => <u8>::try_from(*n).ok(),
                            _ => None,
                        }
                    }
                }
                impl FromVal for u16 {
                    fn from_val(v: &$crate::val::Val) -> Option<Self> {
                        match v {
                            $crate::val::Val::Num(n) => <u16>::try_from(*n).ok(),
                            _ => None,
                        }
                    }
                }
                impl FromVal for u32 {
                    fn from_val(v: &$crate::val::Val) -> Option<Self> {
                        match v {
                            $crate::val::Val::Num(n) => <u32>::try_from(*n).ok(),
                            _ => None,
                        }
                    }
                }
                impl FromVal for u64 {
                    fn from_val(v: &$crate::val::Val) -> Option<Self> {
                        match v {
                            $crate::val::Val::Num(n) => <u64>::try_from(*n).ok(),
                            _ => None,
                        }
                    }
                }
                impl FromVal for usize {
                    fn from_val(v: &$crate::val::Val) -> Option<Self> {
                        match v {
                            $crate::val::Val::Num(n) => <usize>::try_from(*n).ok(),
                            _ => None,
                        }
                    }
                }


        impl FromVal for String {
            fn from_val(v: &$crate::val::Val) -> Option<Self> {
                match v {
                    $crate::val::Val::Text(s) | $crate::val::Val::Hex(s) => Some(s.clone()),
                    _ => None,
                }
            }
        }
        impl Elem for String {}
        impl Elem for u16 {}
        impl Elem for u32 {}
        impl Elem for u64 {}
        impl Elem for usize {}
        impl Elem for chrono::NaiveDateTime {}

        impl FromVal for Vec<u8> {
            fn from_val(v: &$crate::val::Val) -> Option<Self> {
                match v {
                    $crate::val::Val::Bytes(b) => Some(b.clone()),
                    _ => None,
                }
            }
        }

        impl FromVal for chrono::NaiveDateTime {
            fn from_val(v: &$crate::val::Val) -> Option<Self> {
                match v {
                    $crate::val::Val::DateTime(d) => chrono::NaiveDate::from_ymd_opt(d[0] as i32, d[1], d[2])?.and_hms_opt(d[3], d[4], d[5]),
                    _ => None,
                }
            }
        }

        impl<T: FromVal> FromVal for Option<T> {
            fn from_val(v: &$crate::val::Val) -> Option<Self> {
                match v {
                    $crate::val::Val::Opt(None) => Some(None),
                    $crate::val::Val::Opt(Some(b)) => T::from_val(b).map(Some),
                    _ => None,
                }
            }
        }

        impl<T: FromVal + Elem> FromVal for Vec<T> {
            fn from_val(v: &$crate::val::Val) -> Option<Self> {
                match v {
                    $crate::val::Val::List(items) => items.iter().map(T::from_val).collect(),
                    _ => None,
                }
            }
        }

    };
}
