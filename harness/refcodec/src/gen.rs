//! Value generators (DESIGN §5.4): boundary-biased per field kind; candidates
//! are filtered by the fixed-point test of §5.1 by the callers.

use crate::cp437::CP437;
use crate::layout::*;
use crate::prng::Rng;
use crate::val::Val;

#[derive(Clone, Copy, Debug, PartialEq)]
pub enum Presence {
    AllAbsent,
    AllPresent,
    /// only the k-th optional/repeated field of the top struct is present
    Only(usize),
    Random,
}

#[derive(Clone, Copy, Debug)]
pub struct GenCfg {
    /// allow payloads up to the 64 KiB limits
    pub big: bool,
    /// probability (percent) of deliberately leaving the canonical domain
    pub stray_pct: u64,
}

impl Default for GenCfg {
    fn default() -> Self {
        GenCfg { big: false, stray_pct: 3 }
    }
}

pub struct Gen<'a> {
    pub schema: &'a Schema,
    pub cfg: GenCfg,
}

fn digits_of(max: u128) -> usize {
    max.to_string().len()
}

impl<'a> Gen<'a> {
    pub fn new(schema: &'a Schema, cfg: GenCfg) -> Self {
        Gen { schema, cfg }
    }

    /// Byte length for a variable-size payload under a length style.
    fn pick_len(&self, rng: &mut Rng, len: &Len) -> usize {
        let stray = rng.chance(self.cfg.stray_pct, 100);
        match len {
            Len::Fixed(n) => {
                if stray {
                    rng.below(*n as u64 + 2) as usize
                } else {
                    *n
                }
            }
            Len::Temp => {
                if stray {
                    rng.below(7) as usize
                } else {
                    3 + rng.below(2) as usize
                }
            }
            Len::Ll => match rng.below(10) {
                0 => 0,
                1 => 1,
                2 => 98,
                3 => 99,
                4 if stray => 100,
                _ => rng.below(100) as usize,
            },
            Len::Lll => match rng.below(16) {
                0 => 0,
                1 => 1,
                2 => 99,
                3 => 100,
                4 => 998,
                5 => 999,
                6 if stray => 1000,
                7 => rng.below(1000) as usize,
                _ => rng.below(60) as usize,
            },
            Len::Ber | Len::None => match rng.below(24) {
                0 => 0,
                1 => 1,
                2 => 126,
                3 => 127,
                4 => 128,
                5 => 129,
                6 => 254,
                7 => 255,
                8 => 256,
                9 => 257,
                10 => rng.below(300) as usize,
                11 if self.cfg.big => match rng.below(6) {
                    0 => 65535,
                    1 => 65534,
                    2 => 32768,
                    3 => 65536 - rng.below(32) as usize,
                    _ => rng.below(65536) as usize,
                },
                _ => rng.below(40) as usize,
            },
        }
    }

    pub fn gen_num(&self, rng: &mut Rng, cap_digits: usize, ty: IntTy) -> u128 {
        let tmax = ty.max();
        let dmax = cap_digits.min(digits_of(tmax));
        let stray = rng.chance(self.cfg.stray_pct, 100);
        match rng.below(12) {
            0 => 0,
            1 => 1,
            2 => tmax.min(10u128.pow(dmax as u32) - 1),
            3 if stray => tmax.min(10u128.pow(dmax as u32)), // one too wide for the field (if the type allows)
            5 => {
                // power of two +-2 (binary boundaries: 2^32, 2^53 float precision, 2^63 ...)
                let k = rng.below(65) as u32;
                let p = if k >= 64 { u64::MAX as u128 } else { 1u128 << k };
                let v = match rng.below(5) {
                    0 => p.saturating_sub(2),
                    1 => p.saturating_sub(1),
                    2 => p,
                    3 => p + 1,
                    _ => p + 2,
                };
                v.min(tmax).min(10u128.pow(dmax as u32) - 1)
            }
            4 => {
                // power of ten +-1 at a digit-count boundary
                let d = rng.below(dmax as u64 + 1) as u32;
                let p = 10u128.pow(d);
                (match rng.below(3) {
                    0 => p.saturating_sub(1),
                    1 => p,
                    _ => p + 1,
                })
                .min(tmax)
                .min(10u128.pow(dmax as u32) - 1)
            }
            _ => {
                let d = rng.below(dmax as u64 + 1) as u32;
                if d == 0 {
                    0
                } else {
                    let lo = 10u128.pow(d - 1);
                    let hi = (10u128.pow(d) - 1).min(tmax);
                    if hi < lo {
                        tmax
                    } else {
                        lo + rng.below128(hi - lo + 1)
                    }
                }
            }
        }
    }

    pub fn gen_int(&self, rng: &mut Rng, ty: IntTy) -> u128 {
        let max = ty.max();
        match rng.below(8) {
            0 => 0,
            1 => 1,
            2 => max,
            3 => max - 1,
            4 => {
                let k = rng.below(8 * ty.bytes() as u64) as u32;
                ((1u128 << k) + rng.below(3) as u128).saturating_sub(1).min(max)
            }
            5 => rng.below(256) as u128 & max,
            _ => rng.below128(max + 1),
        }
    }

    pub fn gen_cp437(&self, rng: &mut Rng, n: usize) -> String {
        let mut s: String = (0..n)
            .map(|_| {
                if rng.chance(1, 3) {
                    CP437[rng.below(256) as usize]
                } else {
                    CP437[rng.range(0x20, 0x7e) as usize]
                }
            })
            .collect();
        // now and then a text that reads as a number (a temperature, an amount, a version): digits with a decimal point or
        // comma in every position, a sign, an exponent
        if n >= 1 && rng.chance(1, 8) {
            let mut t: Vec<char> = (0..n).map(|_| (b'0' + rng.below(10) as u8) as char).collect();
            if n >= 2 && rng.chance(3, 4) {
                let at = rng.below(n as u64) as usize;
                t[at] = *rng.pick(&['.', '.', ',']);
            }
            if rng.chance(1, 4) {
                t[0] = *rng.pick(&['-', '+', ' ']);
            }
            if n >= 3 && rng.chance(1, 8) {
                let at = 1 + rng.below(n as u64 - 2) as usize;
                t[at] = *rng.pick(&['e', 'E', 'x']);
            }
            s = t.into_iter().collect();
        }
        // now and then a run of bytes that means something in *another* representation (UTF-8 sequences, byte-order
        // marks, line ends, escape / format sequences) - at the start, at the end or somewhere inside
        if n >= 2 && rng.chance(1, 6) {
            const FOREIGN: &[&[u8]] = &[
                &[0xe2, 0x82, 0xac],
                &[0xef, 0xbb, 0xbf],
                &[0xc3, 0xa4],
                &[0xc3, 0xb6],
                &[0xc3, 0xbc],
                &[0xc3, 0x9f],
                &[0xc3, 0xa9],
                &[0xe2, 0x80, 0x93],
                &[0xe2, 0x80, 0x9c],
                &[0xc2, 0xa0],
                &[0xf0, 0x9f, 0x99, 0x82],
                &[0xff, 0xfe],
                &[0xfe, 0xff],
                &[0x0d, 0x0a],
                &[0x0a, 0x0d],
                &[0x1b, 0x5b, 0x30, 0x6d],
                &[0x25, 0x73],
                &[0x7b, 0x7d],
                &[0x5c, 0x6e],
                &[0x5c, 0x30],
                &[0x26, 0x23, 0x33, 0x32, 0x3b],
            ];
            let f = *rng.pick(FOREIGN);
            if f.len() <= n {
                let mut chars: Vec<char> = s.chars().collect();
                let at = match rng.below(3) {
                    0 => 0,
                    1 => n - f.len(),
                    _ => rng.below((n - f.len() + 1) as u64) as usize,
                };
                for (k, b) in f.iter().enumerate() {
                    chars[at + k] = CP437[*b as usize];
                }
                // pure-ASCII remainder half of the time (so that the whole text is valid in the other representation too)
                if rng.chance(1, 2) {
                    for (k, c) in chars.iter_mut().enumerate() {
                        if (k < at || k >= at + f.len()) && !c.is_ascii_graphic() && *c != ' ' {
                            *c = 'x';
                        }
                    }
                }
                s = chars.into_iter().collect();
            }
        }
        if n > 0 && !rng.chance(self.cfg.stray_pct, 100) {
            // canonical text does not end in NUL
            while s.ends_with('\0') {
                s.pop();
                s.push(CP437[rng.range(1, 255) as usize]);
            }
        }
        s
    }

    pub fn gen_utf8(&self, rng: &mut Rng, max_bytes: usize) -> String {
        const POOL: &[char] = &['a', 'Z', '0', ' ', '-', '.', 'ä', 'ß', 'é', '€', '漢', '字', '🙂', '\u{1}', '\0', '\u{7f}', '\u{80}', '\u{7ff}', '\u{800}', '\u{ffff}', '\u{10000}', '\u{10ffff}'];
        let mut s = String::new();
        loop {
            let c = *rng.pick(POOL);
            if s.len() + c.len_utf8() > max_bytes {
                break;
            }
            s.push(c);
        }
        s
    }

    pub fn gen_datetime(&self, rng: &mut Rng) -> [u32; 6] {
        let y = match rng.below(6) {
            0 => 0,
            1 => 9999,
            2 => 2000,
            3 => 1999,
            _ => rng.below(10000) as u32,
        };
        let m = rng.range(1, 12) as u32;
        let dim = crate::codec::days_in_month(y, m);
        let mut d = match rng.below(4) {
            0 => 1,
            1 => dim,
            _ => rng.range(1, dim as u64) as u32,
        };
        // every component at its boundaries (midnight encodes as BCD zero = an empty TLV value)
        let comp = |rng: &mut Rng, max: u64| -> u32 {
            match rng.below(5) {
                0 => 0,
                1 => max as u32,
                2 => 1,
                _ => rng.below(max + 1) as u32,
            }
        };
        let mut h = comp(rng, 23);
        let mi = comp(rng, 59);
        let s = comp(rng, 59);
        if rng.chance(self.cfg.stray_pct, 100) {
            match rng.below(3) {
                0 => d = dim + 1,
                1 => h = 24,
                _ => return [y, 13, 1, 0, 0, 0],
            }
        }
        [y, m, d, h, mi, s]
    }

    pub fn gen_scalar(&self, rng: &mut Rng, f: &Field, depth: usize) -> Val {
        match &f.enc {
            Enc::Int { ty, .. } => Val::Num(self.gen_int(rng, *ty)),
            Enc::Bcd(ty) => {
                let cap = match &f.len {
                    Len::Fixed(n) => 2 * n,
                    Len::Ll => 198,
                    _ => 40,
                };
                Val::Num(self.gen_num(rng, cap, *ty))
            }
            Enc::Rcpt => Val::Num(match rng.below(6) {
                0 => 0,
                1 => 1,
                2 => 9999,
                3 => 0xffff,
                4 if rng.chance(self.cfg.stray_pct, 100) => 10000,
                _ => rng.below(10000) as u128,
            }),
            Enc::Cp437 => {
                let n = self.pick_len(rng, &f.len);
                Val::Text(self.gen_cp437(rng, n))
            }
            Enc::Utf8 => {
                let n = self.pick_len(rng, &f.len);
                Val::Text(self.gen_utf8(rng, n))
            }
            Enc::Hex => {
                let n = self.pick_len(rng, &f.len);
                Val::Hex(crate::hex(&rng.bytes(n)))
            }
            Enc::Bytes => {
                let mut n = self.pick_len(rng, &f.len);
                if n == 0 && !rng.chance(self.cfg.stray_pct, 100) {
                    n = 1 + rng.below(8) as usize;
                }
                Val::Bytes(rng.bytes(n))
            }
            Enc::DateTime => Val::DateTime(self.gen_datetime(rng)),
            Enc::Struct(k) => self.gen_struct(rng, self.schema.get(k), if depth > 3 { Presence::AllAbsent } else { Presence::Random }, depth + 1),
        }
    }

    /// Indices (into def.fields) of the optional/repeated fields.
    pub fn optional_fields(def: &StructDef) -> Vec<usize> {
        def.fields.iter().enumerate().filter(|(_, f)| f.card != Card::One).map(|(i, _)| i).collect()
    }

    /// A value for field `fi` whose *encoding* begins like a sibling tagged field (tag byte(s) + a small length byte):
    /// the shape that tempts a decoder to confuse a field's content with the next field's header.
    pub fn confusable(&self, rng: &mut Rng, def: &StructDef, fi: usize) -> Option<Val> {
        let f = &def.fields[fi];
        let sibs: Vec<u16> = def.fields.iter().enumerate().filter(|(i, g)| *i != fi && g.tag.is_some()).map(|(_, g)| g.tag.unwrap()).collect();
        if sibs.is_empty() {
            return None;
        }
        let tag = *rng.pick(&sibs);
        let mut bytes = crate::codec::tag_bytes(tag)?;
        bytes.push(*rng.pick(&[0u8, 0, 1, 2, 3, 4, 6, 8]));
        for _ in 0..rng.below(3) {
            bytes.push(rng.byte() & 0x77);
        }
        match (&f.enc, &f.len) {
            (Enc::Bcd(ty), len) => {
                let width = match len {
                    Len::Fixed(n) => *n,
                    _ => bytes.len(),
                };
                bytes.truncate(width);
                if bytes.iter().any(|b| (b >> 4) > 9 || (b & 0xf) > 9) {
                    return None;
                }
                while bytes.len() < width {
                    bytes.push(0);
                }
                let mut n: u128 = 0;
                for b in &bytes {
                    n = n * 100 + ((b >> 4) as u128) * 10 + (b & 0xf) as u128;
                }
                if n > ty.max() {
                    return None;
                }
                Some(Val::Num(n))
            }
            (Enc::Hex, len) => {
                if let Len::Fixed(n) = len {
                    bytes.resize(*n, 0x11);
                }
                Some(Val::Hex(crate::hex(&bytes)))
            }
            (Enc::Cp437, len) => {
                if let Len::Fixed(n) = len {
                    bytes.resize(*n, 0x41);
                }
                if bytes.last() == Some(&0) {
                    *bytes.last_mut().unwrap() = 0x41;
                }
                Some(Val::Text(crate::codec::cp437_decode(&bytes)))
            }
            (Enc::Bytes, _) => Some(Val::Bytes(bytes)),
            (Enc::Int { ty, be }, _) => {
                let k = ty.bytes();
                bytes.resize(k, 0);
                let mut n: u128 = 0;
                for i in 0..k {
                    let b = if *be { bytes[i] } else { bytes[k - 1 - i] };
                    n = (n << 8) | b as u128;
                }
                Some(Val::Num(n))
            }
            _ => None,
        }
    }

    /// Byte patterns that look like the start of a tagged element: a tag of the schema (any struct's, not only a
    /// sibling's), one of the special tags of the specification (three-byte 1F 80 00 / 1F 80 01, 9F 5A / 9F 5B,
    /// FF 01..FF 04, an arbitrary 1F xx) followed by small length-like bytes.
    pub fn header_pattern(&self, rng: &mut Rng) -> Vec<u8> {
        let mut p: Vec<u8> = match rng.below(10) {
            0 => vec![0x1f, 0x80, 0x00],
            1 => vec![0x1f, 0x80, 0x01],
            2 => vec![0x9f, *rng.pick(&[0x5a, 0x5b])],
            3 => vec![0xff, 1 + rng.below(4) as u8],
            4 => vec![0x1f, rng.byte()],
            _ => {
                let tags: Vec<u16> = self.schema.structs.values().flat_map(|d| d.fields.iter().filter_map(|f| f.tag)).collect();
                if tags.is_empty() {
                    vec![0x1f, 0x00]
                } else {
                    crate::codec::tag_bytes(*rng.pick(&tags)).unwrap_or(vec![0x1f, 0x01])
                }
            }
        };
        p.push(*rng.pick(&[0u8, 0, 1, 2, 3, 4, 6, 8]));
        p
    }

    /// Overwrite the struct's leading mandatory fixed-width positional fields so that the struct's *encoding* begins
    /// with `header_pattern`: the pattern may span several fields (a binary count followed by a BCD total, ...).
    /// Returns false (and leaves `out` untouched) when the pattern is not representable.
    pub fn lead_with_pattern(&self, rng: &mut Rng, def: &StructDef, out: &mut Vec<(String, Val)>) -> bool {
        let pat = self.header_pattern(rng);
        let mut pos = 0usize;
        let mut new: Vec<(usize, Val)> = vec![];
        for (i, f) in def.fields.iter().enumerate() {
            if pos >= pat.len() || f.tag.is_some() || f.card != Card::One {
                break;
            }
            let mut take = |k: usize, fill: u8| -> Vec<u8> {
                let mut b: Vec<u8> = pat.iter().skip(pos).take(k).cloned().collect();
                pos += k;
                while b.len() < k {
                    b.push(fill);
                }
                b
            };
            match (&f.enc, &f.len) {
                (Enc::Int { ty, be }, Len::None) => {
                    let k = ty.bytes();
                    let b = take(k, 0);
                    let mut n: u128 = 0;
                    for j in 0..k {
                        n = (n << 8) | (if *be { b[j] } else { b[k - 1 - j] }) as u128;
                    }
                    new.push((i, Val::Num(n)));
                }
                (Enc::Bcd(ty), Len::Fixed(k)) => {
                    let b = take(*k, (rng.below(10) as u8) << 4 | rng.below(10) as u8);
                    if b.iter().any(|x| (x >> 4) > 9 || (x & 0xf) > 9) {
                        return false;
                    }
                    let mut n: u128 = 0;
                    for x in &b {
                        n = n * 100 + ((x >> 4) as u128) * 10 + (x & 0xf) as u128;
                    }
                    if n > ty.max() {
                        return false;
                    }
                    new.push((i, Val::Num(n)));
                }
                (Enc::Hex, Len::Fixed(k)) => {
                    let b = take(*k, 0x11);
                    new.push((i, Val::Hex(crate::hex(&b))));
                }
                _ => break,
            }
        }
        if pos < 2 || new.is_empty() {
            return false;
        }
        for (i, v) in new {
            out[i].1 = v;
        }
        true
    }

    pub fn gen_struct(&self, rng: &mut Rng, def: &StructDef, presence: Presence, depth: usize) -> Val {
        let opt = Self::optional_fields(def);
        let p_present = [15u64, 50, 85][rng.below(3) as usize];
        let mut out = vec![];
        for (i, f) in def.fields.iter().enumerate() {
            let present = match presence {
                Presence::AllAbsent => false,
                Presence::AllPresent => true,
                Presence::Only(k) => opt.get(k) == Some(&i),
                Presence::Random => rng.chance(p_present, 100),
            };
            let nested_presence = |p: Presence| match p {
                Presence::AllAbsent => Presence::AllAbsent,
                Presence::AllPresent => Presence::AllPresent,
                _ => Presence::Random,
            };
            let _ = nested_presence;
            let scalar = |rng: &mut Rng| -> Val {
                match (&f.enc, presence) {
                    (Enc::Struct(k), Presence::AllAbsent) => self.gen_struct(rng, self.schema.get(k), Presence::AllAbsent, depth + 1),
                    (Enc::Struct(k), Presence::AllPresent) => self.gen_struct(rng, self.schema.get(k), Presence::AllPresent, depth + 1),
                    _ => self.gen_scalar(rng, f, depth),
                }
            };
            let v = match f.card {
                Card::One => scalar(rng),
                Card::Opt => {
                    if present {
                        Val::some(scalar(rng))
                    } else {
                        Val::none()
                    }
                }
                Card::Many => {
                    let n = if !present {
                        0
                    } else {
                        match rng.below(48) {
                            // many elements: around the first count that no longer fits a byte
                            0 => *rng.pick(&[255usize, 256, 257, 300]),
                            x => match x % 6 {
                                0 | 1 => 1,
                                2 => 2,
                                3 => 3,
                                4 => 1 + rng.below(8) as usize,
                                _ => 1 + rng.below(3) as usize,
                            },
                        }
                    };
                    Val::List((0..n).map(|_| scalar(rng)).collect())
                }
            };
            out.push((f.name.clone(), v));
        }
        // now and then: the struct's encoding begins like a tagged element (pattern spanning the leading fields)
        if rng.chance(1, 10) {
            self.lead_with_pattern(rng, def, &mut out);
        }
        // now and then: one present scalar field gets a value that looks like a sibling's header
        if rng.chance(1, 8) {
            let fi = rng.below(def.fields.len().max(1) as u64) as usize;
            if fi < def.fields.len() {
                if let Some(c) = self.confusable(rng, def, fi) {
                    let slot = &mut out[fi].1;
                    match (def.fields[fi].card, &slot) {
                        (Card::One, _) => *slot = c,
                        (Card::Opt, _) if presence != Presence::AllAbsent => {
                            *slot = Val::some(c);
                            // the shape matters most when little or nothing follows: drop the tagged fields behind it sometimes
                            if rng.chance(1, 2) {
                                for (j, g) in def.fields.iter().enumerate() {
                                    if j > fi && g.card == Card::Opt {
                                        out[j].1 = Val::none();
                                    } else if j > fi && g.card == Card::Many {
                                        out[j].1 = Val::List(vec![]);
                                    }
                                }
                            }
                        }
                        _ => {}
                    }
                }
            }
        }
        Val::Struct(out)
    }
}
