//! Runaway monitor for codec operations: every operation on the system under test registers itself (type, input
//! bytes, start time) in a per-thread slot; a watchdog thread looks at the slots and at the process's resident set.
//! An operation that is still running after `op_limit`, or a resident set beyond `rss_limit_kb`, ends the process
//! with exit code `EXIT_RUNAWAY` after the operations in flight were written to a file - so that the parent can
//! run each of them again, alone, and tell a decode that does not terminate / allocates without bound (a violation
//! of every codec property that claims "a value or an error") from a machine that was merely slow or full.

use crate::engine::{Built, Outcome, Sut};
use crate::val::Val;
use std::sync::{Arc, Mutex, OnceLock};
use std::time::{Duration, Instant};

pub const EXIT_RUNAWAY: i32 = 3;

struct Op {
    kind: &'static str,
    key: String,
    bytes: *const u8,
    len: usize,
    since: Instant,
}
// the pointer is only read by the watchdog while it holds the slot's lock; the owner clears the entry under the same
// lock before the bytes go away (OpGuard::drop)
unsafe impl Send for Op {}

type Slot = Arc<Mutex<Vec<Op>>>;

fn registry() -> &'static Mutex<Vec<(u64, Slot)>> {
    static R: OnceLock<Mutex<Vec<(u64, Slot)>>> = OnceLock::new();
    R.get_or_init(|| Mutex::new(vec![]))
}

/// Kernel id of the calling thread (0 if it cannot be read).
fn thread_id() -> u64 {
    std::fs::read_to_string("/proc/thread-self/stat").ok().and_then(|s| s.split_whitespace().next().and_then(|x| x.parse().ok())).unwrap_or(0)
}

/// CPU seconds (user + system) a thread of this process has used so far.
fn thread_cpu_seconds(tid: u64) -> Option<f64> {
    let stat = std::fs::read_to_string(format!("/proc/self/task/{tid}/stat")).ok()?;
    let f: Vec<&str> = stat[stat.rfind(')')? + 2..].split_whitespace().collect();
    Some((f.get(11)?.parse::<u64>().ok()? + f.get(12)?.parse::<u64>().ok()?) as f64 / 100.0)
}

thread_local! {
    static SLOT: Slot = {
        let s: Slot = Arc::new(Mutex::new(vec![]));
        registry().lock().unwrap_or_else(|e| e.into_inner()).push((thread_id(), s.clone()));
        s
    };
}

pub struct OpGuard {
    slot: Slot,
}

/// Register an operation of this thread; it is in flight until the guard is dropped.  `bytes` must outlive the guard
/// (it borrows them).
pub fn begin<'a>(kind: &'static str, key: &str, bytes: &'a [u8]) -> OpGuard {
    let slot = SLOT.with(|s| s.clone());
    slot.lock().unwrap_or_else(|e| e.into_inner()).push(Op { kind, key: key.to_string(), bytes: bytes.as_ptr(), len: bytes.len(), since: Instant::now() });
    OpGuard { slot }
}

impl Drop for OpGuard {
    fn drop(&mut self) {
        self.slot.lock().unwrap_or_else(|e| e.into_inner()).pop();
    }
}

pub fn rss_kb() -> u64 {
    std::fs::read_to_string("/proc/self/statm").ok().and_then(|s| s.split_whitespace().nth(1).and_then(|x| x.parse::<u64>().ok())).map(|pages| pages * 4).unwrap_or(0)
}

/// Operations in flight: (kind, type key, input bytes, seconds running), innermost operation of every thread.
fn in_flight() -> Vec<(String, String, Vec<u8>, f64)> {
    in_flight_by_thread().into_iter().map(|x| (x.2, x.3, x.4, x.5)).collect()
}

/// The same with the thread's kernel id and the operation's start in front.
fn in_flight_by_thread() -> Vec<(u64, Instant, String, String, Vec<u8>, f64)> {
    let slots: Vec<(u64, Slot)> = registry().lock().unwrap_or_else(|e| e.into_inner()).clone();
    let mut out = vec![];
    for (tid, s) in slots {
        let g = s.lock().unwrap_or_else(|e| e.into_inner());
        if let Some(op) = g.last() {
            // SAFETY: see `Op`
            let bytes = unsafe { std::slice::from_raw_parts(op.bytes, op.len) }.to_vec();
            out.push((tid, op.since, op.kind.to_string(), op.key.clone(), bytes, op.since.elapsed().as_secs_f64()));
        }
    }
    out
}

/// Start the watchdog thread.  On a runaway it writes `{reason, rss_kb, ops: [{kind, type, bytes, running_s}]}` to
/// `report_path` and exits the process with `EXIT_RUNAWAY`.
///
/// `op_limit` is counted in CPU seconds of the thread that runs the operation (from the moment the watchdog first saw
/// the operation), not in wall-clock seconds: on a stalled machine an operation can take arbitrarily long without
/// being stuck.  (After an hour of wall-clock time the operation is handed to the confirmation step all the same.)
pub fn start_watchdog(report_path: String, op_limit: Duration, rss_limit_kb: u64) {
    std::thread::spawn(move || {
        // thread id -> (start of the operation first seen there, the thread's CPU seconds at that moment)
        let mut first_seen: std::collections::HashMap<u64, (Instant, f64)> = std::collections::HashMap::new();
        loop {
            std::thread::sleep(Duration::from_millis(50));
            let rss = rss_kb();
            let by_thread = in_flight_by_thread();
            let mut stuck: Vec<usize> = vec![];
            for (i, (tid, since, _, _, _, wall)) in by_thread.iter().enumerate() {
                if *wall < 1.0 {
                    first_seen.remove(tid);
                    continue;
                }
                let now_cpu = thread_cpu_seconds(*tid);
                let e = first_seen.entry(*tid).or_insert((*since, now_cpu.unwrap_or(0.0)));
                if e.0 != *since {
                    *e = (*since, now_cpu.unwrap_or(0.0));
                }
                let used = now_cpu.map(|c| c - e.1);
                if used.map(|u| u > op_limit.as_secs_f64()).unwrap_or(*wall > op_limit.as_secs_f64()) || *wall > 3600.0 {
                    stuck.push(i);
                }
            }
            let slow = !stuck.is_empty();
            if rss > rss_limit_kb || slow {
                let reason = if slow { format!("an operation has used {} s of CPU time without returning", op_limit.as_secs()) } else { format!("resident set {} MiB exceeds the budget of {} MiB", rss / 1024, rss_limit_kb / 1024) };
                // when memory ran out every operation in flight is a suspect (the longest-running first)
                let mut ops: Vec<(String, String, Vec<u8>, f64)> = by_thread.iter().enumerate().filter(|(i, _)| !slow || stuck.contains(i)).map(|(_, x)| (x.2.clone(), x.3.clone(), x.4.clone(), x.5)).collect();
                ops.sort_by(|a, b| b.3.partial_cmp(&a.3).unwrap_or(std::cmp::Ordering::Equal));
                let j = serde_json::json!({
                    "reason": reason,
                    "rss_kb": rss,
                    "ops": ops.iter().map(|o| serde_json::json!({"kind": o.0, "type": o.1, "bytes": crate::hex(&o.2), "running_s": o.3})).collect::<Vec<_>>(),
                });
                let _ = std::fs::write(&report_path, j.to_string());
                std::process::exit(EXIT_RUNAWAY);
            }
        }
    });
}

/// CPU seconds (user + system) this process has used so far.
pub fn cpu_seconds() -> f64 {
    let Ok(stat) = std::fs::read_to_string("/proc/self/stat") else { return 0.0 };
    let Some(i) = stat.rfind(')') else { return 0.0 };
    let f: Vec<&str> = stat[i + 2..].split_whitespace().collect();
    let ticks = f.get(11).and_then(|x| x.parse::<u64>().ok()).unwrap_or(0) + f.get(12).and_then(|x| x.parse::<u64>().ok()).unwrap_or(0);
    ticks as f64 / 100.0
}

/// Watchdog of a process that runs ONE operation alone (the confirmation step).  The verdict must not depend on the
/// wall clock - a stalled machine proves nothing -, so the operation counts as not coming back when this process has
/// *used* `cpu_limit` seconds of CPU time (a decode needs micro- to milliseconds) or grown beyond `rss_limit_kb`.
pub fn start_watchdog_alone(report_path: String, cpu_limit: Duration, rss_limit_kb: u64) {
    std::thread::spawn(move || loop {
        std::thread::sleep(Duration::from_millis(50));
        let rss = rss_kb();
        let cpu = cpu_seconds();
        if rss > rss_limit_kb || cpu > cpu_limit.as_secs_f64() {
            let reason = if rss > rss_limit_kb { format!("resident set {} MiB exceeds the budget of {} MiB", rss / 1024, rss_limit_kb / 1024) } else { format!("{cpu:.0} s of CPU time used without returning") };
            let ops = in_flight();
            let j = serde_json::json!({"reason": reason, "rss_kb": rss, "cpu_s": cpu, "ops": ops.iter().map(|o| serde_json::json!({"kind": o.0, "type": o.1, "bytes": crate::hex(&o.2), "running_s": o.3})).collect::<Vec<_>>()});
            let _ = std::fs::write(&report_path, j.to_string());
            std::process::exit(EXIT_RUNAWAY);
        }
    });
}

/// A system under test whose operations are registered with the runaway monitor.
pub struct Watched<S: Sut>(pub S);

impl<S: Sut> Sut for Watched<S> {
    fn build(&mut self, key: &str, v: &Val) -> Option<Result<Built, String>> {
        // the value has no bytes yet; the decode of its serialisation registers itself (see `begin` in the callee)
        let _g = begin("construct + serialise", key, &[]);
        self.0.build(key, v)
    }
    fn decode_eq(&mut self, key: &str, bytes: &[u8], want: &Val) -> Option<bool> {
        let _g = begin("decode", key, bytes);
        self.0.decode_eq(key, bytes, want)
    }
    fn run(&mut self, key: &str, bytes: &[u8]) -> Outcome {
        let _g = begin("decode", key, bytes);
        self.0.run(key, bytes)
    }
    fn decode(&mut self, key: &str, bytes: &[u8]) -> Outcome {
        let _g = begin("decode", key, bytes);
        self.0.decode(key, bytes)
    }
}
