//! Deterministic PRNG (splitmix64-seeded xoshiro256**); every random choice of
//! the harness derives from VERIF_SEED through this.

#[derive(Clone)]
pub struct Rng([u64; 4]);

fn splitmix(x: &mut u64) -> u64 {
    *x = x.wrapping_add(0x9E3779B97F4A7C15);
    let mut z = *x;
    z = (z ^ (z >> 30)).wrapping_mul(0xBF58476D1CE4E5B9);
    z = (z ^ (z >> 27)).wrapping_mul(0x94D049BB133111EB);
    z ^ (z >> 31)
}

impl Rng {
    pub fn new(seed: u64) -> Self {
        let mut x = seed ^ 0x5EED_5EED_5EED_5EED;
        Rng([splitmix(&mut x), splitmix(&mut x), splitmix(&mut x), splitmix(&mut x)])
    }
    /// Independent stream derived from this seed and a label (shard number, type name hash ...).
    pub fn derive(seed: u64, label: u64) -> Self {
        let mut x = seed.wrapping_mul(0x9E3779B97F4A7C15) ^ label.wrapping_mul(0xD1B54A32D192ED03);
        let s = splitmix(&mut x);
        Rng::new(s)
    }
    pub fn next(&mut self) -> u64 {
        let s = &mut self.0;
        let r = s[1].wrapping_mul(5).rotate_left(7).wrapping_mul(9);
        let t = s[1] << 17;
        s[2] ^= s[0];
        s[3] ^= s[1];
        s[1] ^= s[2];
        s[0] ^= s[3];
        s[2] ^= t;
        s[3] = s[3].rotate_left(45);
        r
    }
    /// Uniform in 0..n (n > 0).
    pub fn below(&mut self, n: u64) -> u64 {
        if n == 0 {
            return 0;
        }
        ((self.next() as u128 * n as u128) >> 64) as u64
    }
    pub fn range(&mut self, lo: u64, hi_incl: u64) -> u64 {
        lo + self.below(hi_incl - lo + 1)
    }
    pub fn below128(&mut self, n: u128) -> u128 {
        if n == 0 {
            return 0;
        }
        let x = ((self.next() as u128) << 64) | self.next() as u128;
        x % n
    }
    pub fn chance(&mut self, num: u64, den: u64) -> bool {
        self.below(den) < num
    }
    pub fn pick<'a, T>(&mut self, v: &'a [T]) -> &'a T {
        &v[self.below(v.len() as u64) as usize]
    }
    pub fn byte(&mut self) -> u8 {
        self.next() as u8
    }
    pub fn bytes(&mut self, n: usize) -> Vec<u8> {
        (0..n).map(|_| self.byte()).collect()
    }
    pub fn shuffle<T>(&mut self, v: &mut [T]) {
        for i in (1..v.len()).rev() {
            let j = self.below(i as u64 + 1) as usize;
            v.swap(i, j);
        }
    }
}

/// FNV-1a, used for content hashes of cases (distinctness counting).
pub fn fnv(data: &[u8]) -> u64 {
    let mut h: u64 = 0xcbf29ce484222325;
    for b in data {
        h ^= *b as u64;
        h = h.wrapping_mul(0x100000001b3);
    }
    h
}
