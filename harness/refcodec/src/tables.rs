//! Reply sets, final packets and streams (DESIGN Appendix B) — normative input
//! of the C05/C06/C15 oracles.  Written from the specification chapters the
//! source cites, not derived from the Rust enums.

pub struct ReplyEnum {
    pub name: &'static str,
    /// (variant name, struct key)
    pub variants: &'static [(&'static str, &'static str)],
}

pub struct StreamDef {
    pub name: &'static str,
    pub command: &'static str,
    pub replies: &'static str,
    /// variant names that end the exchange; empty = single-reply stream (any one reply ends it)
    pub finals: &'static [&'static str],
}

const ISI: (&str, &str) = ("IntermediateStatusInformation", "packets::IntermediateStatusInformation");
const SI: (&str, &str) = ("StatusInformation", "packets::StatusInformation");
const PL: (&str, &str) = ("PrintLine", "packets::PrintLine");
const PTB: (&str, &str) = ("PrintTextBlock", "packets::PrintTextBlock");
const CD: (&str, &str) = ("CompletionData", "packets::CompletionData");
const AB: (&str, &str) = ("Abort", "packets::Abort");

pub const REPLY_ENUMS: &[ReplyEnum] = &[
    ReplyEnum { name: "io::Ack", variants: &[("Ack", "packets::Ack")] },
    ReplyEnum { name: "sequences::RegistrationResponse", variants: &[CD] },
    ReplyEnum { name: "sequences::ReadCardResponse", variants: &[ISI, SI, AB] },
    ReplyEnum { name: "sequences::InitializationResponse", variants: &[ISI, PL, PTB, CD, AB] },
    ReplyEnum { name: "sequences::SetTerminalIdResponse", variants: &[CD, AB] },
    ReplyEnum { name: "sequences::ResetTerminalResponse", variants: &[CD] },
    ReplyEnum {
        name: "sequences::DiagnosisResponse",
        variants: &[ISI, ("SetTimeAndDate", "packets::SetTimeAndDate"), PL, PTB, CD, AB],
    },
    ReplyEnum {
        name: "sequences::EndOfDayResponse",
        variants: &[ISI, SI, PL, PTB, CD, ("Abort", "packets::PartialReversalAbort")],
    },
    ReplyEnum { name: "sequences::AuthorizationResponse", variants: &[ISI, SI, PL, PTB, CD, AB] },
    ReplyEnum {
        name: "sequences::PartialReversalResponse",
        variants: &[ISI, SI, PL, PTB, CD, ("PartialReversalAbort", "packets::PartialReversalAbort")],
    },
    ReplyEnum { name: "sequences::PrintSystemConfigurationResponse", variants: &[PL, PTB, CD] },
    ReplyEnum { name: "sequences::SelectLanguageResponse", variants: &[CD] },
    ReplyEnum { name: "sequences::StatusEnquiryResponse", variants: &[ISI, PL, PTB, CD] },
    ReplyEnum {
        name: "feig::sequences::GetSystemInfoResponse",
        variants: &[
            (
                "CVendFunctionsEnhancedSystemInformationCompletion",
                "feig::packets::CVendFunctionsEnhancedSystemInformationCompletion",
            ),
            AB,
        ],
    },
    ReplyEnum {
        name: "feig::sequences::WriteFileResponse",
        variants: &[CD, ("RequestForData", "feig::packets::RequestForData"), AB],
    },
    ReplyEnum { name: "feig::sequences::FactoryResetResponse", variants: &[CD] },
    ReplyEnum { name: "feig::sequences::ChangeHostConfigurationResponse", variants: &[CD, AB] },
];

pub const STREAMS: &[StreamDef] = &[
    StreamDef { name: "Registration", command: "packets::Registration", replies: "sequences::RegistrationResponse", finals: &[] },
    StreamDef { name: "ReadCard", command: "packets::ReadCard", replies: "sequences::ReadCardResponse", finals: &["StatusInformation", "Abort"] },
    StreamDef { name: "Initialization", command: "packets::Initialization", replies: "sequences::InitializationResponse", finals: &["CompletionData", "Abort"] },
    StreamDef { name: "SetTerminalId", command: "packets::SetTerminalId", replies: "sequences::SetTerminalIdResponse", finals: &[] },
    StreamDef { name: "ResetTerminal", command: "packets::ResetTerminal", replies: "sequences::ResetTerminalResponse", finals: &[] },
    StreamDef { name: "Diagnosis", command: "packets::Diagnosis", replies: "sequences::DiagnosisResponse", finals: &["CompletionData", "Abort"] },
    StreamDef { name: "EndOfDay", command: "packets::EndOfDay", replies: "sequences::EndOfDayResponse", finals: &["CompletionData", "Abort"] },
    StreamDef { name: "Authorization", command: "packets::Authorization", replies: "sequences::AuthorizationResponse", finals: &["CompletionData", "Abort"] },
    StreamDef { name: "Reservation", command: "packets::Reservation", replies: "sequences::AuthorizationResponse", finals: &["CompletionData", "Abort"] },
    StreamDef { name: "PartialReversal", command: "packets::PartialReversal", replies: "sequences::PartialReversalResponse", finals: &["CompletionData", "PartialReversalAbort"] },
    StreamDef { name: "PreAuthReversal", command: "packets::PreAuthReversal", replies: "sequences::PartialReversalResponse", finals: &["CompletionData", "PartialReversalAbort"] },
    StreamDef { name: "PrintSystemConfiguration", command: "packets::PrintSystemConfiguration", replies: "sequences::PrintSystemConfigurationResponse", finals: &["CompletionData"] },
    StreamDef { name: "SelectLanguage", command: "packets::SelectLanguage", replies: "sequences::SelectLanguageResponse", finals: &[] },
    StreamDef { name: "StatusEnquiry", command: "packets::StatusEnquiry", replies: "sequences::StatusEnquiryResponse", finals: &["CompletionData"] },
    StreamDef { name: "feig::GetSystemInfo", command: "feig::packets::CVendFunctions", replies: "feig::sequences::GetSystemInfoResponse", finals: &[] },
    StreamDef { name: "feig::FactoryReset", command: "feig::packets::CVendFunctions", replies: "feig::sequences::FactoryResetResponse", finals: &[] },
    StreamDef { name: "feig::ChangeHostConfiguration", command: "feig::packets::ChangeConfiguration", replies: "feig::sequences::ChangeHostConfigurationResponse", finals: &[] },
    StreamDef { name: "feig::WriteFile", command: "feig::packets::WriteFile", replies: "feig::sequences::WriteFileResponse", finals: &["CompletionData", "Abort"] },
];

pub fn reply_enum(name: &str) -> &'static ReplyEnum {
    REPLY_ENUMS.iter().find(|e| e.name == name).unwrap_or_else(|| panic!("unknown reply enum {name}"))
}
