#!/bin/bash
# tools/seedcheck.sh <ID> "<demo command, run inside the worktree>" [check ids to run ...]
# Confirms a seeded change delivered in /tmp/seed-out/<ID>/ independently, in a fresh scratch worktree:
#   demo passes without the patch; with the patch: repo tests pass, demo fails; then runs the given checks against it.
set -u
ID="$1"; DEMO="$2"; shift 2; CHECKS=("$@")
ROOT="$(cd "$(dirname "$0")/.." && pwd)"
PFX="${SEED_PREFIX:-seed}"
OUT=/tmp/$PFX-out/$ID
WT=/tmp/${PFX}v-$ID
SRC=/tmp/$PFX-$ID
export CARGO_NET_OFFLINE=true
git -C /repo worktree remove --force "$WT" 2>/dev/null; rm -rf "$WT"
git -C /repo worktree add --detach "$WT" HEAD >/dev/null 2>&1 || { echo "cannot create $WT"; exit 2; }
export CARGO_TARGET_DIR="$WT/target"
cleanup() { git -C /repo worktree remove --force "$WT" 2>/dev/null; rm -rf "$WT" "$ROOT/.build/alt-"*; }
trap cleanup EXIT
res() { echo "RESULT $1"; }
git -C "$WT" apply "$OUT/patch.diff" || { res "patch_does_not_apply"; exit 1; }
( cd "$WT" && cargo test --workspace --no-fail-fast --offline ) > /tmp/seedv-$ID-tests.log 2>&1; rc_tests=$?
passed=$(grep -E "^test result: ok" /tmp/seedv-$ID-tests.log | sed -E 's/.* ([0-9]+) passed.*/\1/' | paste -sd+ | bc)
res "repo_tests_with_patch_rc=$rc_tests passed=$passed"
# demonstration files = untracked files of the agent's worktree (outside target/)
mapfile -t demos < <(git -C "$SRC" status --short --untracked-files=all | grep '^??' | awk '{print $2}' | grep -v '^target/')
for d in "${demos[@]}"; do mkdir -p "$WT/$(dirname "$d")"; cp "$SRC/$d" "$WT/$d"; done
echo "demo files: ${demos[*]}"
# some demonstrations need dev-dependencies / features added to a Cargo.toml: those edits are in the agent's tracked diff but not in patch.diff
git -C "$SRC" diff -- '*Cargo.toml' > /tmp/seedv-$ID-cargo.diff
if [ -s /tmp/seedv-$ID-cargo.diff ] && ! grep -q 'Cargo.toml' "$OUT/patch.diff"; then git -C "$WT" apply /tmp/seedv-$ID-cargo.diff && echo "applied the agent's Cargo.toml edits for the demonstration"; fi
( cd "$WT" && eval "$DEMO" ) > /tmp/seedv-$ID-demo-patched.log 2>&1; rc_patched=$?
res "demo_with_patch_rc=$rc_patched"
git -C "$WT" apply -R "$OUT/patch.diff"
( cd "$WT" && eval "$DEMO" ) > /tmp/seedv-$ID-demo-clean.log 2>&1; rc_clean=$?
res "demo_without_patch_rc=$rc_clean"
# the demonstration must not be visible to our checks: remove it (and the Cargo.toml edits) before running them
for d in "${demos[@]}"; do rm -f "$WT/$d"; done
git -C "$WT" checkout -- $(git -C "$WT" diff --name-only -- '*Cargo.toml') 2>/dev/null
git -C "$WT" apply "$OUT/patch.diff" 2>/dev/null
export VERIF_REPO="$WT"
export VERIF_ROOT="$ROOT/.build/seedcheck-out"; mkdir -p "$VERIF_ROOT"; cp "$ROOT/known_findings.json" "$VERIF_ROOT/"
unset CARGO_TARGET_DIR
for c in "${CHECKS[@]}"; do
  out="$("$ROOT/check" "$c" --tier quick 2>&1)"; rc=$?
  res "check=$c rc=$rc $(echo "$out" | grep -m1 'signature:' | cut -c1-180)"
done
