#!/bin/bash
# tools/seedrun_repo.sh <seeded-dir> <check id>...   apply a kept seeded change to /repo ITSELF, run the checks, undo it straight afterwards
set -u
ROOT="$(cd "$(dirname "$0")/.." && pwd)"; D="$1"; shift
[ -z "$(git -C /repo status --porcelain)" ] || { echo "/repo is not clean"; exit 2; }
trap 'git -C /repo checkout -- . ; git -C /repo clean -fdq' EXIT
git -C /repo apply "$ROOT/seeded/$D/patch.diff" || exit 2
export VERIF_ROOT="$ROOT/.build/seedcheck-out"; mkdir -p "$VERIF_ROOT"; cp "$ROOT/known_findings.json" "$VERIF_ROOT/"
for c in "$@"; do out="$("$ROOT/check" "$c" --tier quick 2>&1)"; echo "$D check=$c rc=$? $(echo "$out" | grep -m1 'signature:' | cut -c1-160)"; done
