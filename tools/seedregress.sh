#!/bin/bash
# tools/seedregress.sh [glob ...]: every kept seeded change must still be caught by the checks recorded in its meta.json
# (one scratch worktree outside /repo and /verif, reused so that the alternate build directory stays warm; removed at the end)
set -u
ROOT="$(cd "$(dirname "$0")/.." && pwd)"; PATS=("$@"); [ ${#PATS[@]} -eq 0 ] && PATS=("*")
WT="${SEEDREGRESS_WT:-/tmp/zvt-seedregress-wt}"
git -C /repo worktree remove --force "$WT" 2>/dev/null; rm -rf "$WT"
git -C /repo worktree add --detach "$WT" HEAD >/dev/null 2>&1 || { echo "cannot create worktree"; exit 2; }
trap 'git -C /repo worktree remove --force "$WT" 2>/dev/null; rm -rf "$WT" "$ROOT/.build/alt-"*' EXIT
export VERIF_REPO="$WT"; export VERIF_ROOT="$ROOT/.build/seedregress-out"; mkdir -p "$VERIF_ROOT"; cp "$ROOT/known_findings.json" "$VERIF_ROOT/"
miss=0; n=0
for PAT in "${PATS[@]}"; do
for d in $ROOT/seeded/$PAT; do
  [ -f "$d/patch.diff" ] || continue
  name="$(basename "$d")"
  git -C "$WT" checkout -q -- . ; git -C "$WT" clean -fdq -e target
  git -C "$WT" apply "$d/patch.diff" || { echo "[$name] patch does not apply"; miss=$((miss+1)); continue; }
  checks=$(python3 -c "import json;print(' '.join(json.load(open('$d/meta.json'))['caught_by_quick_checks']))")
  for c in $checks; do
    n=$((n+1))
    out="$("$ROOT/check" "$c" --tier quick 2>&1)"; rc=$?
    if [ $rc -eq 1 ]; then echo "[$name] $c caught"; else echo "[$name] $c NOT CAUGHT (rc=$rc) $(echo "$out" | tail -1 | cut -c1-160)"; miss=$((miss+1)); fi
  done
done
done
echo "seedregress: $n check runs, $miss not caught"
[ $miss -eq 0 ]
