#!/bin/bash
# tools/run_all.sh <tier> [seed...]   run every registered check; summary line per check
tier="${1:-quick}"; shift
seeds=("$@"); [ ${#seeds[@]} -eq 0 ] && seeds=(0)
cd "$(dirname "$0")/.."
./check --setup || exit 2
fail=0
for seed in "${seeds[@]}"; do
  for id in C01 C02 C03 C04 C05 C06 C07 C08 C09 C10 C11 C12 C13 C14 C15 C16 C17 C18 C19 C20; do
    start=$(date +%s)
    out=$(VERIF_SEED=$seed ./check $id --tier $tier 2>&1); rc=$?
    end=$(date +%s)
    echo "seed=$seed rc=$rc t=$((end-start))s $(echo "$out" | tail -1)"
    if [ $rc -ne 0 ]; then fail=1; echo "$out" | grep -E "VIOLATION|signature|what:|INCONCLUSIVE" | head -12; fi
  done
done
exit $fail
