#!/usr/bin/env python3
"""Regenerate /verif/MANIFEST.json from the table below (keeps it valid and in sync)."""
import json, os, subprocess
ROOT = os.path.dirname(os.path.dirname(os.path.abspath(__file__)))
props = [json.loads(l) for l in open(os.path.join(ROOT, 'properties.jsonl'))]
ids = [p['id'] for p in props]

# id -> (category, technique, level text, level note, design ref)
CHECKS = {
 'C01': ('exploration', 'reference-model oracle over generated executions (typed value constructed, serialised and deserialised by the real code; compared with an independent reference codec) + panic monitor',
         'Held on the executions explored: every one of the 55 shipped struct types x thousands of canonical values (systematic presence masks, boundary numbers, every prefix switch, payloads to 64 KiB). Sampled, not exhaustive: a value class never generated is not covered.',
         'trusts the reference codec/layout table in harness/refcodec (validated against the captured packets), derived Debug/PartialEq of the types, and the field-name list in zvtmon/src/build.rs', '8 C01, 5'),
 'C02': ('exploration', 'runtime monitors on hostile inputs: panic/overflow detection (catch_unwind in an overflow-checked build), counting global allocator, progress watchdog, debug/release digest differential; Miri slice in the thorough tier',
         'Held on the inputs explored: all inputs of length <= 2 and all cf+body<=2 exhaustively for 72 decoders, every truncation and single-byte substitution of a corpus, millions of structure-aware mutants. Inputs not generated are not covered.',
         'trusts rustc overflow checks / unwinding to surface arithmetic and indexing faults; allocation bound 64 x len + 16 KiB; no-progress = 10 s inside one call in the run and 10 s of CPU time (or 2 GiB) alone in a fresh process; numbers that do not fit: BER lengths and calendar entries must be an error or exactly the number written', '8 C02, 10'),
 'C03': ('exploration', 'differential against an independent reference codec interpreting a hand-written layout table, both directions, byte-exact',
         'Held on the executions explored (same workload as C01, each optional field additionally alone for attribution). The layout table is the second statement of the specification; agreement is checked, not proved.',
         'trusts the layout table harness/refcodec/src/layout_zvt.txt as the statement of the ZVT/Feig specification', '8 C03, 5.2, Appendix A'),
 'C04': ('exploration', 'trace checker over an instrumented in-memory stream driven by a hand-written poll loop (all partitions into read results, Pending wake-ups, every end-of-stream position) with an independent framing rule as oracle',
         'Exhaustive for the header agreement (all body lengths 0..65535) and for all chunkings x EOF positions of all packet sequences up to the stated total length; longer sequences and 64 KiB bodies sampled.', 'trusts the independent framing rule in c04.rs and the scripted stream', '8 C04, 6, D.2'),
 'C05': ('exploration', 'offline trace checker over the scripted terminal\'s byte-exact event log (gated replies, abstract log equality) with an independent table of reply sets / final packets',
         'Bounded-exhaustive over reply scripts in variant names up to the stated depth for all 18 streams, each letter instantiated with several canonical values; random scripts to depth 40.', 'trusts the reply-set/final-packet table (DESIGN Appendix B), the reference encoder for replies and the decoder bridge for commands', '8 C05, 6, D.1'),
 'C06': ('fault_enumeration', 'fault injection at every position of scripted exchanges (NACK, foreign control field, malformed body, truncation at every offset, EOF) with a trace checker over the event log',
         'Every valid prefix up to the stated depth x every fault kind x every position (ack position included) x every truncation offset for all 18 streams.', 'malformed bodies restricted to those whose rejection follows from C02/C13', '8 C06, 6, D.1'),
 'C07': ('exploration', 'sequential client model (token map) as oracle over call histories of the real Feig client driven against a simulated terminal under tokio\'s paused clock; invariant hook on the client\'s token map after every call; probe suffix at the API boundary',
         'Model-guided bounded-exhaustive over all histories of the stated depth (every terminal outcome branched where the model accepts the call) x transactions_max_num 0..3, plus random walks to depth 40.', 'trusts the simulated terminal (speaks ZVT through the reference codec) and the 30-line client model of DESIGN D.3; hook zvt_verif (in-memory connector + read-only map snapshot)', '8 C07, 7, D.3'),
 'C08': ('exploration', 'simulated terminal decoding the client\'s requests with the reference codec + u128 arithmetic oracle + ledger balance (conservation) check',
         'Held on the begin/commit scenarios explored: boundary-biased amounts over the whole 12-digit field and all of u64, currencies 0..9999, CP437 tokens to 200 chars, receipts 1..9999, status fields over their BCD ranges.', 'trusts the simulated terminal and reference decoder; 64-bit usize', '8 C08, 7'),
 'C09': ('fault_enumeration', 'fault injection at every packet position of every public operation (fault-free run numbers the positions) + offline connection checker R1-R4 over the per-connection event log with virtual timestamps',
         'Single faults exhaustive over operations x positions x kinds; pairs around every position and sampled triples; non-fault delays and serial letter case as negative controls.', 'after a fault the simulated terminal is passive on that connection, so later bytes there are the client\'s', '8 C09, 7, D.4'),
 'C10': ('fault_enumeration', 'virtual-time watchdog (one virtual day around every public call on tokio\'s paused clock) + panic/overflow monitor under stall injection at every packet position and exhaustive read_card_timeout 0..255',
         'Every operation x one-shot and persistent silence at every packet point (handshake included) x connect stalls; read_card_timeout exhaustively; configuration extremes. Bounded progress is decided on virtual time, never wall clock.', 'watchdog bound = 86400 virtual seconds, far above the analytic retry budget (exchanges x 20 x (2 + 60 + 60) s)', '8 C10, 7'),
 'C18': ('exploration', 'reference classification function (three-valued where the statement is silent) as oracle over read_card executions against the simulated terminal; each card presented twice with irrelevant fields varied',
         'Held on the cards explored (UID absent/0..20 bytes in adversarial patterns, application lists, no TLV, intermediates) and all 256 abort codes.', 'applications listed only under tag 62 are recorded, not judged', '8 C18'),
 'C19': ('exploration', 'temporal trace checker over the simulated terminal\'s request log per public call, driven by the sequential client model',
         'The C07 histories under varied clean-up behaviour (dangling receipt yes/no/absent field, reversal abort, every end-of-day abort code, extra packets).', 'trusts the client model for "no transaction left open" and the simulated terminal', '8 C19, D.3'),
 'C20': ('exploration', 'exhaustive enumeration of result codes x abort sites x positions against an independently typed table of the specification\'s messages; structured error-chain inspection',
         'All 256 codes x 12 abort sites x up to 5 positions, duplicate-free; every site must be reached or the run is inconclusive.', 'the 79-entry message table in c20.rs is typed from chapter 10 of the specification', '8 C20, D.5'),
 'C11': ('exploration', 'scripted terminal + reference codec as oracle over real files created by the harness; trace checker over the event log',
         'Held on the uploads explored (thousands of directories x block sizes x request scripts incl. invalid requests); sampled.', 'trusts the reference encodings of announcement / request / data block in seq.rs (WfCodec)', '8 C11, D.1'),
 'C12': ('exploration', 'program generation: random well-formed #[derive(Zvt)] struct definitions are compiled against /repo and run under the same reference-codec oracle and mutation engine as C01/C03/C13/C14 (the generator emits the Rust source and the layout description from one draw)',
         'Held on the generated programs explored: hundreds of struct definitions per run over the whole attribute grammar (layouts the shipped packets never use), thousands of canonical values and mutants each. Sampled.', 'trusts the generator to stay inside the macro\'s documented grammar (a crate that does not compile is inconclusive) and the reference codec', '8 C12'),
 'C13': ('exploration', 'structure-aware mutation of reference chunk trees (all permutations <= 6 groups, duplicates, removals, foreign tags) with the reference decoder on the same bytes as oracle',
         'Held on the mutants explored; permutations exhaustive per node up to 6 present groups, sampled above.', 'trusts the reference decoder; claims weakened inside repeated / positional-optional scopes as stated in DESIGN', '8 C13'),
 'C14': ('exploration', 'suffix / sibling injection on reference chunk trees with the reference decoder on the same bytes as oracle',
         'Held on the mutants explored: every single-byte suffix for the first value of every packet type, valid packets, continuation bytes, random suffixes; attractive bytes behind every nested length-prefixed element.', 'trusts the reference decoder', '8 C14'),
 'C15': ('exploration', 'exhaustive enumeration of control fields against an independent reply-set table; the variant type\'s own decoder as content oracle',
         'All 65536 control fields x 17 enums x a body set enumerated completely; bodies inside the reply sets sampled.', 'trusts the reply-set table (DESIGN Appendix B) and sut dispatch', '8 C15, Appendix B'),
 'C16': ('exploration', 'exhaustive enumeration with independent shortest-form formulas and prefix parsers as oracle; panic monitor',
         'Exhaustive over the stated space: every representable length of every style x trailing data, every 0..3-byte string through the four parsers.', 'trusts the independent formulas in refcodec::codec', '8 C16'),
 'C17': ('exploration', 'exhaustive (u8, u16, all tags, BCD inputs <= 3 bytes, CP437 <= 2 bytes) and boundary/random enumeration with independent encodings as oracle; overflow-checked build as arithmetic sanitizer',
         'Exhaustive where flagged in the evidence rule, boundary + random sampling for 32/64-bit integers and long strings.', 'trusts the independent encodings in refcodec::codec and the CP437 table generated from Python', '8 C17'),
}
NOT_YET = 'check not built yet (work in progress, see DESIGN.md section 14)'

def sh(*a):
    return subprocess.run(a, capture_output=True, text=True).stdout.strip()
hook_commit = sh('git', '-C', '/repo', 'log', '--format=%h', '--grep=zvt_verif feature', '-n', '1')

checks = []
for i in ids:
    if i not in CHECKS:
        continue
    cat, tech, text, note, ref = CHECKS[i]
    checks.append({
        'property_id': i,
        'quick_cmd': f'./check {i} --tier quick',
        'thorough_cmd': f'./check {i} --tier thorough',
        'evidence_file': f'/verif/evidence/{i}.json',
        'replay_cmd_template': f'./check {i} --replay {{path}}',
        'engine': 'zvtmon',
        'level_claimed': {'category': cat, 'text': text, 'design_ref': 'DESIGN.md section ' + ref},
        'level_note': note,
        'technique': tech,
    })
manifest = {
    'version': 1,
    'setup_cmd': './check --setup',
    'hooks': {
        'guard': 'zvt_verif',
        'enable': 'cargo feature zvt_feig_terminal/zvt_verif, switched on by the harness workspace manifest (harness/Cargo.toml.in); every ./check command rebuilds the harness against /repo\'s working tree',
        'baseline_off_cmd': 'cd /repo && cargo test --workspace --no-fail-fast --offline',
        'source_commits': [hook_commit] if hook_commit else [],
        'add_only': True,
    },
    'engines': [
        {'name': 'zvtmon', 'path': 'harness/zvtmon', 'serves_properties': [c['property_id'] for c in checks],
         'kind_free_text': 'Rust binary linking the real crates of /repo: runtime monitors (reference-model oracles, trace checkers over recorded event logs, panic/overflow/allocation/progress watchdogs)'},
        {'name': 'refcodec', 'path': 'harness/refcodec', 'serves_properties': ['C01', 'C02', 'C03', 'C12', 'C13', 'C14', 'C15', 'C16', 'C17'],
         'kind_free_text': 'independent reference codec + layout/reply-set tables + value generators + evidence writer'},
    ],
    'checks': checks,
    'notes': 'Runtime monitoring only: every verdict is "held on the executions observed". Exit 0 held / 1 violation (VIOLATION line + replay file) / 2 inconclusive. known_findings.json lists repaired defects (status fixed: suppress nothing).',
    'not_applicable': [{'property_id': i, 'reason': NOT_YET} for i in ids if i not in CHECKS],
}
json.dump(manifest, open(os.path.join(ROOT, 'MANIFEST.json'), 'w'), indent=1)
print('checks:', [c['property_id'] for c in checks], 'pending:', [i for i in ids if i not in CHECKS])
