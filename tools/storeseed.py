#!/usr/bin/env python3
"""tools/storeseed.py <round> <json-file>: copy confirmed sub-agent deliveries from /tmp/seed<round>-out/<ID>/ into
/verif/seeded/<ID>-r<round>/ with a meta.json.  The json file maps ID -> [change, trigger, demo_cmd, [checks], history]."""
import json, os, shutil, subprocess, sys
rnd, path = sys.argv[1], sys.argv[2]
info = json.load(open(path))
base = subprocess.run(['git', '-C', '/repo', 'rev-parse', '--short', 'HEAD'], capture_output=True, text=True).stdout.strip()
src = f'/tmp/seed{rnd}-out' if rnd != '1' else '/tmp/seed-out'
for cid, (change, trigger, demo, checks, story) in info.items():
    d = f'/verif/seeded/{cid}-r{rnd}'
    os.makedirs(d, exist_ok=True)
    for f in os.listdir(f'{src}/{cid}'):
        if f == 'patch.diff' or f.startswith('seed_demo') or f.endswith('.diff'):
            shutil.copy(f'{src}/{cid}/{f}', d)
    if os.path.exists(f'{src}/{cid}/notes.md'):
        shutil.copy(f'{src}/{cid}/notes.md', d + '/agent_notes.md')
    place = 'zvt_feig_terminal/tests/seed_demo.rs' if 'feig_terminal' in demo else ('zvt_builder/tests/seed_demo.rs' if '-p zvt_builder' in demo else 'zvt/tests/seed_demo.rs')
    meta = {'property_broken': cid, 'round': int(rnd),
            'written_by': 'independent sub-agent (told what the earlier changes for this property were and asked for a different, harder-to-hit one); saw only the property text and its own scratch worktree',
            'base_commit': base, 'change': change, 'needs_to_manifest': trigger,
            'demonstration': {'file': 'seed_demo.rs', 'place_at': place, 'command': demo},
            'confirmed_by_me': {'how': f'tools/seedcheck.sh (SEED_PREFIX=seed{rnd}): fresh scratch worktree; patch applied -> 34 repository tests pass; demonstration fails with the patch and passes without it; demonstration removed, then ./check <ID> --tier quick with VERIF_REPO=<worktree>',
                                'repo_tests_with_patch': '34 passed, 0 failed', 'demonstration_with_patch': 'fails', 'demonstration_without_patch': 'passes'},
            'caught_by_quick_checks': checks, 'history': story}
    json.dump(meta, open(d + '/meta.json', 'w'), indent=1)
print('stored', sorted(info))
